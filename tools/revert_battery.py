#!/usr/bin/env python3
"""For every `fix:` commit in /repo: build the reverse patch, apply it to /repo's working tree, run the
checks that should notice, keep the first replay file as /verif/regress/<Cxx>-<key>.json, restore /repo.
Writes /verif/seeded/reverts/results.json (which check catches which reverted fix)."""
import subprocess, json, os, sys, glob, shutil, time
MAP = {
 "Reed-Solomon codec with zero parity": ("rs-zero-parity", ["C01","C08"]),
 "set the close-object flag only on the last packet": ("b-flag-every-block", ["C02","C08"]),
 "do not build a source block for an empty object": ("empty-object-block", ["C08"]),
 "FDT File entries of Raptor objects": ("raptor-fdt-z", ["C08","C10"]),
 "receiver no longer spins forever": ("inflate-stall", ["C01"]),
 "per-object groups": ("object-groups-dropped", ["C01","C10"]),
 "limited to the 40 bits": ("raptor-40-bit-length", ["C01"]),
 "announces Z = 1": ("raptor-empty-z0", ["C01"]),
 "header extension length (HEL)": ("hel-u8-shift", ["C06"]),
 "shorter than the fixed LCT word": ("lct-3-byte", ["C04"]),
 "unimplemented Reed-Solomon GF(2^m) scheme": ("rs2m-no-decoder", ["C04"]),
 "source block number is beyond": ("sbn-out-of-range", ["C04"]),
 "only completed through an opened writer": ("empty-object-complete-shortcut", ["C09","C16"]),
 "RaptorQ decoder ignores an encoding symbol": ("raptorq-symbol-size", ["C04"]),
 "only created for parameters inside the RFC limits": ("raptor-params", ["C04"]),
 "Raptor decoder ignores an encoding symbol": ("raptor-symbol-size", ["C04"]),
 "FTI with max_n smaller": ("rs28-fti-underflow", ["C04"]),
 "ring buffer of the inflate path": ("ring-zero", ["C04"]),
 "field size m between 2 and 16": ("rs2m-m-range", ["C04"]),
 "filesystem writer refuses": ("fs-path-escape", ["C05"]),
 "refuses a source block that is larger": ("block-larger-than-limit", ["C04","C17"]),
 "replayed in their order of reception": ("cache-lifo", ["C02","C16"]),
 "FDT OTI attributes with Max-Number": ("fdt-oti-underflow", ["C04"]),
 "size of the packet cache": ("cache-size-not-accounted", ["C17"]),
 "never fully received expire": ("unfinished-fdt-never-pruned", ["C17"]),
 "close-object flag received before the FDT": ("close-flag-before-fdt", ["C02","C19"]),
 "cached packets of an empty object": ("empty-object-cache-replay", ["C19","C16"]),
 "read from a stream is filled": ("stream-short-reads", ["C20"]),
 "masked to 112 bits": ("toi-112-not-masked", ["C15"]),
 "divides by zero packets": ("empty-object-pacing", ["C14","C11"]),
}
REPO=os.environ.get("LAB_REPO","/repo")
CHECK=os.environ.get("LAB_CHECK","/verif/check")
def sh(*a, **k): return subprocess.run(a, capture_output=True, text=True, **k)
log = sh("git","-C",REPO,"log","--format=%h %s","--reverse").stdout.splitlines()
fixes = [l.split(" ",1) for l in log if " fix:" in " "+l.split(" ",1)[1][:5] or l.split(" ",1)[1].startswith("fix:")]
only = sys.argv[1:]
os.makedirs("/verif/seeded/reverts", exist_ok=True)
resfile="/verif/seeded/reverts/results.json"
results = json.load(open(resfile)) if os.path.exists(resfile) else {}
for h, subj in fixes:
    ent = [v for k,v in MAP.items() if k in subj]
    if not ent:
        print("UNMAPPED", h, subj); continue
    key, checks = ent[0]
    if only and key not in only and h not in only: continue
    if sh("git","-C",REPO,"status","--porcelain","--","src").stdout.strip():
        print("repo dirty, abort"); sys.exit(2)
    patch = sh("git","-C",REPO,"diff",h,h+"~1","--","src").stdout
    pf = f"/verif/seeded/reverts/{key}.diff"
    open(pf,"w").write(patch)
    if sh("git","-C",REPO,"apply","--check",pf).returncode != 0:
        # later fixes touched the same lines: try 3-way
        r = sh("git","-C",REPO,"apply","--3way",pf)
        if r.returncode != 0:
            sh("git","-C",REPO,"checkout","--","."); sh("git","-C",REPO,"reset","-q")
            print(f"{h} {key}: reverse patch does not apply any more (overlapping later fix) - skipped")
            results[key] = {"commit": h, "subject": subj, "applies": False}
            continue
        sh("git","-C",REPO,"reset","-q")
    else:
        sh("git","-C",REPO,"apply",pf)
    try:
        results[key] = {"commit": h, "subject": subj, "applies": True, "checks": {}}
        for c in checks:
            rd = f"/tmp/revert_replays/{key}-{c}"
            shutil.rmtree(rd, ignore_errors=True); os.makedirs(rd)
            t=time.time()
            r = sh(CHECK, c, "quick", env=dict(os.environ, VERIF_REPLAY_DIR=rd, VERIF_EVIDENCE=f"/tmp/revert_replays/{key}-{c}.evidence.json"))
            dt=time.time()-t
            msg = [l for l in r.stdout.splitlines() if "FAILED" in l or "VIOLATION" in l or "aborted" in l or "exceeded" in l][:1]
            results[key]["checks"][c] = {"rc": r.returncode, "wall_s": round(dt,1), "first": (msg[0][:300] if msg else "")}
            print(f"{h} {key:34s} {c} rc={r.returncode} {dt:5.1f}s {(msg[0][:160] if msg else '')}")
            reps = sorted(glob.glob(rd+"/*.json"), key=os.path.getsize)
            if r.returncode == 1 and reps and not os.path.exists(f"/verif/regress/{c}-{key}.json"):
                shutil.copy(reps[0], f"/verif/regress/{c}-{key}.json")
    finally:
        sh("git","-C",REPO,"checkout","--",".")
    json.dump(results, open(resfile,"w"), indent=1)
print("done")
