#!/bin/bash
# run every claimed quick check once; print exit code, wall time and the summary line
TIER=${1:-quick}
for i in $(seq -w 1 20); do
  id=C$i
  s=$(date +%s.%N)
  out=$(./check $id $TIER 2>&1); rc=$?
  e=$(date +%s.%N)
  printf "%s rc=%d wall=%.1fs %s\n" $id $rc $(echo "$e - $s" | bc) "$(echo "$out" | grep -E "^\[$id\] tier" | sed 's/evidence=.*//' | cut -c1-150)"
  echo "$out" | grep -E "VIOLATION|HARNESS|INCONCLUSIVE" | head -3
done
