#!/usr/bin/env python3
"""Independent XML reader for C10 (python3 stdlib expat - shares nothing with quick-xml or with the
harness' own reader).  Server mode: one hex-encoded document per input line; one JSON line back:
  {"ok": true, "root": name, "attrs": {...}, "groups": [...], "files": [{"attrs": {...}, "groups": [...], "cache": [kind, text]}]}
  {"ok": false, "error": "..."}
Names are reported as local names (prefix stripped)."""
import sys, json, binascii
import xml.parsers.expat

def local(n):
    return n.split(':')[-1]

def parse(doc):
    p = xml.parsers.expat.ParserCreate()
    p.buffer_text = True
    stack = []
    out = {"root": None, "attrs": {}, "groups": [], "files": []}
    cur_file = [None]
    text = []
    def start(name, attrs):
        ln = local(name)
        if not stack:
            out["root"] = ln
            out["attrs"] = {local(k): v for k, v in attrs.items() if not k.startswith("xmlns")}
        elif ln == "File" and len(stack) == 1:
            cur_file[0] = {"attrs": {local(k): v for k, v in attrs.items()}, "groups": [], "cache": None}
            out["files"].append(cur_file[0])
        stack.append(ln)
        text.clear()
    def end(name):
        ln = stack.pop()
        t = "".join(text)
        if ln == "Group":
            if cur_file[0] is not None and "File" in stack:
                cur_file[0]["groups"].append(t)
            else:
                out["groups"].append(t)
        elif stack and stack[-1] == "Cache-Control" and cur_file[0] is not None:
            cur_file[0]["cache"] = [ln, t.strip()]
        elif ln == "File":
            cur_file[0] = None
        text.clear()
    def chars(d):
        text.append(d)
    p.StartElementHandler = start
    p.EndElementHandler = end
    p.CharacterDataHandler = chars
    p.Parse(doc, True)
    return out

def main():
    for line in sys.stdin:
        line = line.strip()
        if not line:
            continue
        try:
            doc = binascii.unhexlify(line)
            r = parse(doc)
            r["ok"] = True
        except Exception as e:  # expat error = not well-formed
            r = {"ok": False, "error": str(e)}
        sys.stdout.write(json.dumps(r) + "\n")
        sys.stdout.flush()

if __name__ == "__main__":
    main()
