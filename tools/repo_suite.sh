#!/bin/bash
# run the repository's own test suite (hooks OFF), the way BASELINE.json does (fallback form)
cd /repo && PATH=$PATH:/root/miniconda/bin CARGO_NET_OFFLINE=true cargo test --workspace --no-fail-fast --offline 2>&1 | grep -E "^test result|FAILED|failed|panicked" | head -20
