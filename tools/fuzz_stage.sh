#!/bin/bash
# tools/fuzz_stage.sh <C04|C06>
# coverage-guided stage of the thorough tier: libFuzzer (cargo-fuzz, nightly, ASan) on the byte-level entry
# points props::c04::run_bytes / props::c06::run_bytes, the semantic oracle is inside the target.
# J independent campaigns with derived seeds, each bounded by -runs (fixed work, not a time quota).
# Every artifact is re-run by the STABLE harness binary (flute-verif fuzz-artifact), which decodes it into an
# ordinary replay case; only a failure reproduced there is a VIOLATION.  An artifact that the stable binary
# does not reproduce (libFuzzer's own timeout / rss limits, sanitizer-only reports) is exit 2: inconclusive.
# The campaign statistics are merged into the evidence file the harness has just written.
set -u
ID=$1
HERE="$(cd "$(dirname "$0")/.." && pwd)"
BIN_STABLE="$HERE/harness/target/release/flute-verif"
EVID="${VERIF_EVIDENCE:-$HERE/evidence/$ID.json}"
SEED="${VERIF_SEED:-0}"
J="${VERIF_FUZZ_JOBS:-8}"
case "$ID" in
  C04) TARGET=c04_sequence; RUNS="${VERIF_FUZZ_RUNS:-60000}";  MAXLEN=200 ;;
  C06) TARGET=c06_parse;    RUNS="${VERIF_FUZZ_RUNS:-3000000}"; MAXLEN=1500 ;;
  *) echo "no fuzz stage for $ID"; exit 0 ;;
esac
note() { # append a note to the evidence file
  python3 - "$EVID" "$1" <<'EOF'
import json,sys
p,msg=sys.argv[1],sys.argv[2]
try:
    e=json.load(open(p))
except Exception:
    sys.exit(0)
e.setdefault('coverage',{}).setdefault('notes',[]).append(msg)
json.dump(e,open(p,'w'),indent=1)
EOF
}
cd "$HERE/fuzz" || exit 2
export CARGO_NET_OFFLINE=true
T0=$(date +%s)
BLOG=$(mktemp /tmp/verif-fuzzbuild.XXXXXX)
if ! cargo +nightly fuzz build --fuzz-dir . "$TARGET" >"$BLOG" 2>&1; then
  echo "[$ID:fuzz] stage skipped: cargo +nightly fuzz build failed (the generated-input parts above stand on their own)"
  tail -n 5 "$BLOG"; rm -f "$BLOG"
  note "libFuzzer stage skipped: cargo +nightly fuzz build failed"
  exit 0
fi
rm -f "$BLOG"
FBIN="$HERE/fuzz/target/x86_64-unknown-linux-gnu/release/$TARGET"
RUN="$HERE/fuzz/run/$ID"
rm -rf "$RUN"; mkdir -p "$RUN/seeds"
"$BIN_STABLE" fuzz-seeds "$ID" "$RUN/seeds" >/dev/null 2>&1
NSEEDS=$(ls "$RUN/seeds" | wc -l)
for j in $(seq 1 "$J"); do
  mkdir -p "$RUN/corpus-$j"
  "$FBIN" "$RUN/corpus-$j" "$RUN/seeds" -runs="$RUNS" -seed=$((SEED * 100 + j)) -max_len=$MAXLEN -len_control=0 \
     -timeout=120 -rss_limit_mb=8192 -artifact_prefix="$RUN/art-$j-" -print_final_stats=1 >"$RUN/log-$j" 2>&1 &
done
wait
EXECS=0; COV=0; FT=0; CORP=0
for j in $(seq 1 "$J"); do
  n=$(grep -a "stat::number_of_executed_units" "$RUN/log-$j" | awk '{print $2}'); EXECS=$((EXECS + ${n:-0}))
  c=$(grep -a -o "cov: [0-9]*" "$RUN/log-$j" | tail -1 | awk '{print $2}'); [ "${c:-0}" -gt "$COV" ] && COV=$c
  f=$(grep -a -o "ft: [0-9]*" "$RUN/log-$j" | tail -1 | awk '{print $2}'); [ "${f:-0}" -gt "$FT" ] && FT=$f
  CORP=$((CORP + $(ls "$RUN/corpus-$j" | wc -l)))
done
WALL=$(( $(date +%s) - T0 ))
RC=0
ARTS=$(ls "$RUN"/art-* 2>/dev/null)
NART=0
for a in $ARTS; do
  NART=$((NART + 1))
  VERIF_REPLAY_DIR="${VERIF_REPLAY_DIR:-$HERE/replays}" "$BIN_STABLE" fuzz-artifact "$ID" "$a"; r=$?
  if [ $r -eq 1 ]; then RC=1; break; fi
  if [ $RC -eq 0 ]; then
    echo "[$ID:fuzz] INCONCLUSIVE: libFuzzer artifact $a is not reproduced by the stable replay (kept; see $RUN/log-*)"
    RC=2
  fi
done
python3 - "$EVID" "$ID" "$TARGET" "$J" "$RUNS" "$SEED" "$EXECS" "$COV" "$FT" "$CORP" "$NSEEDS" "$WALL" "$NART" "$RC" "$RUN" <<'EOF'
import json,sys,glob,os
p,ID,target,J,runs,seed,execs,cov,ft,corp,nseeds,wall,nart,rc,run=sys.argv[1:]
try:
    e=json.load(open(p))
except Exception:
    sys.exit(0)
c=e.setdefault('coverage',{})
samples=[]
for f in sorted(glob.glob(run+'/corpus-1/*'))[:3]:
    samples.append({'libfuzzer_corpus_entry_hex':open(f,'rb').read()[:96].hex()})
c['fuzz']={'engine':'libFuzzer via cargo-fuzz (nightly, ASan, debug assertions on)','target':target,'campaigns':int(J),
  'runs_per_campaign':int(runs),'seeds':[int(seed)*100+j for j in range(1,int(J)+1)],'executions':int(execs),
  'edge_coverage_max':int(cov),'features_max':int(ft),'corpus_entries_kept':int(corp),'starting_corpus_files':int(nseeds),
  'artifacts':int(nart),'wall_s':int(wall),
  'rule':'every execution runs the same oracle as the generated parts; libFuzzer keeps an input only when it reaches new coverage, corpus_entries_kept counts those (coverage-distinct inputs)',
  'samples':samples}
c['evaluations']=int(c.get('evaluations',0))+int(execs)
# coverage-distinct inputs are counted as distinct non-trivial cases of the fuzz stage (conservative: kept corpus only)
c['distinct_nontrivial']=int(c.get('distinct_nontrivial',0))+int(corp)
if int(rc)==1:
    e['violations']=int(e.get('violations',0))+1
e['wall_s']=float(e.get('wall_s',0))+float(wall)
json.dump(e,open(p,'w'),indent=1)
EOF
echo "[$ID:fuzz] libFuzzer $TARGET: campaigns=$J runs_each=$RUNS executions=$EXECS cov=$COV ft=$FT corpus_kept=$CORP artifacts=$NART wall=${WALL}s"
exit $RC
