#!/bin/bash
# tools/try_patch.sh <patch.diff> <Cxx> [<Cyy> ...]
# apply a seeded change to /repo, run the named quick checks, ALWAYS restore /repo afterwards.
# prints one line per check: id rc wall and the first failure message
set -u
PATCH=$1; shift
if [ -n "$(git -C /repo status --porcelain -- src Cargo.toml)" ]; then echo "refusing: /repo has uncommitted changes"; exit 2; fi
if ! git -C /repo apply --check "$PATCH" 2>/dev/null; then echo "patch does not apply: $PATCH"; exit 2; fi
git -C /repo apply "$PATCH"
trap 'git -C /repo checkout -- . ; rm -f /tmp/try_patch_replays/*.json 2>/dev/null' EXIT
mkdir -p /tmp/try_patch_replays /tmp/try_patch_evidence
for id in "$@"; do
  s=$(date +%s.%N)
  out=$(VERIF_REPLAY_DIR=/tmp/try_patch_replays VERIF_EVIDENCE=/tmp/try_patch_evidence/$id.json /verif/check $id ${TIER:-quick} 2>&1); rc=$?
  e=$(date +%s.%N)
  printf "%s rc=%d wall=%.0fs :: %s\n" $id $rc $(echo "$e - $s" | bc) "$(echo "$out" | grep -E "FAILED|VIOLATION|HARNESS|BUILD|INCONCLUSIVE" | head -1 | cut -c1-400)"
done
