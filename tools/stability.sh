#!/bin/bash
# tools/stability.sh [seeds...]   run every quick check once per seed from a fresh process; all must be silent
cd "$(dirname "$0")/.."
mkdir -p /tmp/verif-stab
for s in "${@:-1 2 3 4 5}"; do
  for i in $(seq -w 1 20); do
    id=C$i
    out=$(VERIF_SEED=$s VERIF_EVIDENCE=/tmp/verif-stab/$id.json VERIF_REPLAY_DIR=/tmp/verif-stab ./check $id quick 2>&1); rc=$?
    printf "seed=%s %s rc=%d %s\n" $s $id $rc "$(echo "$out" | grep -E "^\[$id\] tier" | sed 's/evidence=.*//' | cut -c1-120)"
    echo "$out" | grep -E "VIOLATION|HARNESS|INCONCLUSIVE|FAILED" | head -3
  done
done
