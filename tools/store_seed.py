#!/usr/bin/env python3
# tools/store_seed.py <worktree> <Cxx> <round> <verify-log> <try-log>
# store a confirmed sub-agent change as seeded/<Cxx>-r<round>/{patch.diff, seeded_demo.rs, meta.json}
import json, os, shutil, subprocess, sys
w, pid, rnd, vlog, tlog = sys.argv[1:6]
d = f"/verif/seeded/{pid}-r{rnd}"
os.makedirs(d, exist_ok=True)
shutil.copy(f"{w}/patch.diff", f"{d}/patch.diff")
shutil.copy(f"{w}/tests/seeded_demo.rs", f"{d}/seeded_demo.rs")
notes = open(f"{w}/NOTES.md").read() if os.path.exists(f"{w}/NOTES.md") else ""
v = open(vlog).read()
t = open(tlog).read().strip().splitlines()
res = {}
for line in t:
    if " rc=" in line:
        k = line.split()[0]
        rc = int(line.split("rc=")[1].split()[0])
        res[k + " (first run)"] = {"rc": rc, "first": line.split(":: ", 1)[1][:300] if ":: " in line else ""}
base = subprocess.run(["git", "-C", "/repo", "rev-parse", "--short", "HEAD"], capture_output=True, text=True).stdout.strip()
own = res.get(pid + " (first run)", {}).get("rc") == 1
meta = {
    "property": pid,
    "round": int(rnd),
    "origin": "fresh sub-agent given only the text of the property, its own scratch git worktree of /repo (nothing from /verif), one-line summaries of the ideas already used for this property, and the instruction to aim at an untouched clause or dimension and not to revert a fix: commit",
    "base_commit": base,
    "needs_to_manifest": "see agent_notes",
    "confirmed_by_me": {"how": "tools/verify_seed.sh <worktree>, serially, private TMPDIR", "log": v},
    "my_checks": {"how": "tools/try_patch.sh <patch> <checks>: git -C /repo apply, ./check <id> quick, git -C /repo checkout -- .", "results": res},
    "detected_by_own_property_check_at_first": own,
    "detected_by_own_property_check_finally": own,
    "agent_notes": notes[:6000],
}
json.dump(meta, open(f"{d}/meta.json", "w"), indent=1)
print(d, "own-check-first-run:", own)
