#!/bin/bash
# tools/verify_seed.sh <worktree>   confirm a sub-agent's seeded change: suite green with it, demo red with it, demo green without it
W=$1
cd $W || exit 2
export PATH=$PATH:/root/miniconda/bin CARGO_NET_OFFLINE=true TMPDIR=/tmp/pin
git diff -- src > /tmp/verify_seed.diff
if ! diff -q /tmp/verify_seed.diff patch.diff >/dev/null; then echo "NOTE: patch.diff differs from the working tree diff; using the working tree diff"; cp /tmp/verify_seed.diff patch.diff; fi
echo "changed: $(git diff --stat -- src | tail -1)"
echo "--- suite with the change"
cargo test --workspace --no-fail-fast --offline 2>&1 | grep -E "^test result|FAILED|failed" | grep -v seeded_demo | head -8
echo "--- demo with the change (must FAIL)"
cargo test --offline --test seeded_demo 2>&1 | grep -E "^test result|panicked|error(\[|:)" | head -4
echo "--- demo without the change (must PASS)"
# (git stash is shared by all worktrees of a repository: never use it here)
git diff -- src > /tmp/verify_seed_$$.diff
git checkout -- src
cargo test --offline --test seeded_demo 2>&1 | grep -E "^test result|panicked|error(\[|:)" | head -4
git apply /tmp/verify_seed_$$.diff && rm -f /tmp/verify_seed_$$.diff
echo "restored: $(git diff --stat -- src | tail -1)"
