#!/usr/bin/env python3
"""print a compact view of a replay file"""
import json,sys
d=json.load(open(sys.argv[1]))
print("property",d.get("property"),"part",d.get("part"))
print("message:",d.get("message","")[:600])
c=d["case"]
def short(o):
    return json.dumps(o,separators=(',',':'))
if isinstance(c,dict) and "sender" in c:
    s=c["sender"]
    print("sender:",short({k:v for k,v in s.items()}))
    for o in c.get("objs",[]):
        print(" obj:",short(o))
    print("rest:",short({k:v for k,v in c.items() if k not in("sender","objs")}))
else:
    print(short(c)[:3000])
