#!/bin/bash
# tools/seed_battery.sh    apply every stored seeded change (seeded/<id>[-r2]/patch.diff) to /repo in turn, run the
# quick check of the property it was seeded for, restore /repo; expects exit 1 + VIOLATION for each.
# Output: one line per seed and seeded/battery.json
cd "$(dirname "$0")/.."
OUT=seeded/battery.json
echo "{" > $OUT.tmp
first=1
for d in seeded/C*/; do
  name=$(basename $d)
  id=${name%%-*}
  if grep -q '"neutralised_by"' $d/meta.json 2>/dev/null; then echo "$name :: skipped (neutralised by a later fix, see meta.json)"; continue; fi
  line=$(tools/try_patch.sh "$PWD/${d%/}/patch.diff" $id 2>&1 | tail -1)
  echo "$name :: $line"
  rc=$(echo "$line" | sed -n 's/.* rc=\([0-9]*\) .*/\1/p')
  msg=$(echo "$line" | sed 's/.*:: //' | cut -c1-300 | python3 -c 'import json,sys; print(json.dumps(sys.stdin.read().strip()))')
  [ $first -eq 0 ] && echo "," >> $OUT.tmp; first=0
  printf ' "%s": {"check": "%s", "rc": %s, "first": %s}' "$name" "$id" "${rc:-null}" "$msg" >> $OUT.tmp
done
echo "" >> $OUT.tmp; echo "}" >> $OUT.tmp
mv $OUT.tmp $OUT
python3 -c "
import json
d=json.load(open('$OUT'))
print(sum(1 for v in d.values() if v['rc']==1),'of',len(d),'seeded changes reported by the quick check of their own property')
"
