#!/usr/bin/env python3
"""Generate /verif/MANIFEST.json from the table below (one entry per claimed property) and
validate it against /root/.vp/MANIFEST.schema.json."""
import json, subprocess, sys, os

REPO_HOOK_COMMITS = subprocess.run(
    ["git", "-C", "/repo", "log", "--format=%h %s", "--grep=^verif hooks"], capture_output=True, text=True
).stdout.strip().splitlines()

TRUSTED = ("Trusted base: the harness' own RFC reference code (harness/src/rfc, written from the RFC figures), "
           "proptest 1.11 as generator/shrinker, flate2/md5 crates as oracles for inflate/MD5, the Rust toolchain. "
           "flute is built from /repo's working tree with feature 'verif' (thin wrappers only), overflow checks and debug assertions on.")

P = {}

def claim(pid, category, technique, text, design_ref, note=None):
    P[pid] = dict(category=category, technique=technique, text=text, design_ref=design_ref, note=note or TRUSTED)

claim("C01", "exploration",
      "proptest-generated end-to-end sessions (sender -> receiver in emission order) against an independent oracle: bytes/metadata handed to a monitoring ObjectWriter must equal what the sender was given; refusal boundary checked with virtual streams",
      "Generated sessions over 1-4 objects x 5 FEC schemes x E x B x parity x cenc x in-band/FDT-only signalling x publish mode x interleave/multiplex/priority x transfer count x "
      "receive-once x source kind x buffer/filesystem writer, object sizes placed at symbol/block/a_large-a_small boundaries and at the scheme maximum (+-1); exactly one completed copy "
      "(one per transfer with receive-once off) with byte-exact content and metadata, no failed writer, nothing else delivered; objects the wire format cannot carry must be refused. "
      "A hang is a violation (watchdog). Open findings are excluded by signature (counted) and pinned.",
      "DESIGN.md section 4 C01")
claim("C02", "fault_enumeration",
      "exhaustive enumeration of all loss subsets of small generated sessions + proptest-sampled loss/duplication patterns; oracle = the property's premise evaluated by an independent RFC labelling of the packets (recoverable => exactly one byte-exact completion)",
      "Sessions come from the small-session generator (scheme x k<=6 x parity<=3 x 1-4 equal/unequal blocks x interleave x in-band/FDT-only OTI x 1-2 transfers x FDT of 1-3 symbols). For every session with "
      "|P|<=12 (quick) / 15 (thorough) ALL 2^|P| subsets are delivered in order (exhaustive per session); larger sessions and the FDT-carousel family are sampled with loss and duplication. Packets are "
      "labelled by the harness' own decoder; whenever an FDT instance listing the object and k symbols per block (RS) / all source symbols (others) arrive, exactly one byte-exact completion and no failed "
      "writer is demanded. Open findings (B flag before the FDT, completed-registry GC) are excluded by signature and counted.",
      "DESIGN.md section 4 C02")
claim("C03", "fault_enumeration",
      "exhaustive enumeration of all orderings of tiny generated sessions + proptest-generated delivery histories (sub-multisets, any order, stale carousel packets, payload edits under MD5); safety invariant over the history observed through a monitoring writer",
      "For every generated session with |P|<=7 (quick) / 8 (thorough) ALL |P|! orderings are delivered (exhaustive per session); larger multi-transfer and carousel sessions get arbitrary sub-multisets in "
      "arbitrary order, including packets of earlier cycles after later ones, and - only when a Content-MD5 is announced and checked - bit flips, truncations, extensions and payload swaps on object packets. "
      "Invariant: a writer that receives complete has received exactly the sender's bytes, and no writer instance leaves the open/write*/terminal protocol (never complete and error).",
      "DESIGN.md section 4 C03")
claim("C04", "exploration",
      "exhaustive enumeration of all datagrams of <=3 bytes and of all single-byte header substitutions over a corpus of valid sessions, plus proptest-generated mutation sequences (field-aware edits through an independent codec, foreign FDT instances); oracle inside the target: no panic/overflow, watchdog, per-thread heap bound, usability probe",
      "Every byte string of length <=3 (16.8 M) and every single-byte substitution in the header region of every packet of a corpus of valid sessions (all schemes, signalling modes, cenc, shapes) "
      "are pushed into fresh receivers (exhaustive on those finite sets); seeded sequences of 1-4 mutations add truncation/extension/splicing/reordering, field-aware edits of every LCT/FTI/FDT/CENC/TIME/"
      "payload-id field and foreign FDT XML with hostile attribute values. Each run must return from every call without panic or overflow (flute built with overflow checks + debug assertions), stay inside a "
      "heap bound derived from the configured cache limit, and leave the receiver usable (a valid session on an unused TSI - and on the same TSI when everything was rejected - is delivered). "
      "Hangs are violations (watchdog). Exploration: absence is not proved.",
      "DESIGN.md section 4 C04")
claim("C05", "exploration",
      "exhaustive enumeration of the Content-Location grammar to a depth bound + proptest random strings, delivered through real sessions into ObjectWriterFS inside a watched sandbox tree (invariant: tree outside the destination unchanged)",
      "All strings of 9 prefixes x up to 4 (quick) / 5 (thorough) segments from the property's 8 segment kinds x 3 outcomes (complete, wrong MD5, interrupted) are enumerated (exhaustive to that depth), plus "
      "random token strings (non-ASCII, escapes, separators, scheme-like prefixes, absolute sandbox paths). The location travels in a foreign FDT; after every session the tree around the destination "
      "(canaries at 8 levels, a sibling, a victim file) must be byte-identical, a completed object must be exactly one file inside the destination, a failed one must leave nothing behind.",
      "DESIGN.md section 4 C05")
claim("C06", "exploration",
      "exhaustive product of field-width classes + proptest boundary values; differential against an independent RFC codec in both directions (flute builds / reference decodes, reference builds / flute parses) plus flute round-trip",
      "All 9600 combinations of CCI/TSI/TOI width class x close flag x scheme x extension subset are enumerated with 4 boundary value sets each (exhaustive over classes, sampled inside a class); "
      "seeded cases cover every FTI field per scheme, payload ids over each scheme's SBN/ESI range, SCT from 1970 to the NTP era end, and - reference-built only - non-minimal widths, PSI/reserved "
      "bits, unknown and long extensions (HEL up to 200 words) in any order, EXT_TIME variants and FEC id 2. Field-by-field equality; times within 1 us. The Raptor (FEC 1) FTI layout is a "
      "self-consistency check only (RFC 5053 figure not available offline).",
      "DESIGN.md section 4 C06")
claim("C07", "exploration",
      "exhaustive small-box enumeration + proptest boundary triples against a 128-bit reference partition (differential oracle)",
      "All (B<=64,E<=24,L<=4000) triples are enumerated (exhaustive on that box) and every block of every triple is compared with an independent u128 "
      "transcription of RFC 5052 s9.1; seeded boundary triples reach B<2^32, E<=65535, L<2^48 with overflow checks on; the receiver's reconstruction of B "
      "from Z is checked through a reference-built EXT_FTI. Exploration, not proof: outside the box only sampled.",
      "DESIGN.md section 4 C07")
claim("C08", "exploration",
      "proptest-generated sender sessions; emitted packet stream decoded by an independent RFC decoder and checked per transfer (round-trip through a reference receiver + invariants over the history)",
      "Sender-only sessions over scheme x E x B x parity x interleave x cenc x transfer count x carousel x removal index; every transfer delimited by the "
      "Subscriber events must carry each source symbol of the RFC 5052 partition exactly once at its RFC offset, at most `parity` repair symbols per block, "
      "increasing ESIs, and end flags only where the property allows; the object is rebuilt from source symbols alone by the harness' own receiver. "
      "Open findings (Raptor) are excluded by signature and pinned.",
      "DESIGN.md section 4 C08")

claim("C09", "exploration",
      "proptest-generated packet histories x injected writer faults; typestate automaton per writer instance evaluated online by a monitoring ObjectWriter (invariant over the callback history)",
      "Histories (clean, lossy, duplicated, reordered, cut at any point followed by dropping the receiver) over small sessions of all schemes incl. cenc and empty objects, x open()/n-th write() failures, "
      "builder answers ObjectAlreadyReceived/Abort, and foreign FDT instances without FEC-OTI attributes (writer created from inside push). Per writer: open once and first, then writes whose successful "
      "concatenation is a prefix of the object, at most one terminal call, nothing after; complete only with exactly the object's bytes and no failed write; every opened writer terminated once the receiver is "
      "dropped. Every other receiver-side check evaluates the same automaton on its own histories.",
      "DESIGN.md section 4 C09")
claim("C16", "fault_enumeration",
      "exhaustive enumeration of every join offset within the first carousel cycle of generated carousel sessions; oracle = every carouselled object completes byte-exact within two further cycles",
      "Carousel sessions (1-3 objects incl. empty, one-symbol and multi-block; all schemes; in-band or FDT-only OTI/CENC; delay, interval and zero-delay carousel; both publish modes) are recorded for 12 "
      "cycles; for each session EVERY packet boundary of the first full cycle is used as join point (exhaustive per session) and the suffix up to the end of the second further full cycle of all objects "
      "and of the FDT is delivered with the original instants. Each object must complete at least once, every completed copy byte-exact with the right location/length.",
      "DESIGN.md section 4 C16")

claim("C17", "exploration",
      "proptest-generated traffic scenarios that keep objects undecodable; oracle = live heap of the receiver thread (counting allocator) against bounds derived from the configuration, scaling relation N vs 4N, and state counters after every push",
      "Scenarios: packets of an FDT-only object whose FDT never arrives (cache limit), first block withheld while later blocks complete (limit + 2 blocks, object abandoned), many failing objects (error list length "
      "after every push), stalled objects / never-completing FDT instance ids / idle sessions followed by real sleeps past 2-8 ms timeouts and cleanup (nb_objects()==0, residual heap must not scale with past "
      "traffic). Limits 4 KiB..300 KiB. Exploration over scenario parameters; boundedness over unbounded histories is approximated by the N vs 4N relation.",
      "DESIGN.md section 4 C17")
claim("C18", "exploration",
      "differential testing (interleaved vs solo sessions), exhaustive enumeration of all TSI-filter operation sequences to a depth against a reference-count model, and model-based listener traces over generated operation sequences",
      "(a) 2-4 sessions on distinct (endpoint, TSI) keys incl. equal TSIs on distinct endpoints and endpoints differing only in the source address, merged by a generated schedule: each session's writer trace must "
      "equal its solo run. (b) ALL sequences of 4 (quick) / 5 (thorough) operations over the 24 filter operations, 8 probes after every operation, filtering toggled: accept iff the reference-count model says so "
      "(exhaustive to that depth). (c) push / close-session / expire / cleanup / drop sequences with a listener: per key (open close)*, equal to the model, all closed after drop.",
      "DESIGN.md section 4 C18")
claim("C19", "exploration",
      "proptest-generated clock offsets, transit delays and arrival orders; oracle = delivery iff the FDT is unexpired on the estimated sender clock, plus a metamorphic relation (outcome independent of the receiver clock offset when SCT is present)",
      "One FDT instance (duration 3 s..55 h, SCT present/absent) and one object (5 schemes, in-band/FDT-only OTI, empty/small), receiver clock offset from 0 to +-40 years, transit delays and object arrival "
      "before/after the FDT biased around the expiry instant (+-2 s excluded), expiry check on/off. Expected outcome computed from the property's estimate formula; an object announced only by an expired "
      "instance must see no writer callback at all.",
      "DESIGN.md section 4 C19")

claim("C10", "exploration",
      "proptest-generated operation histories (stateful, interpreted) on the sender; every emitted FDT instance reassembled by an independent receiver and read by two independent XML parsers (own reader + python expat) plus xmllint --schema, compared with a reference model of the announced set",
      "Sequences add / remove / publish / set_complete / read / advance over objects with hostile-but-legal metadata (quotes, & < >, non-ASCII, long), per-object OTI, all cache-control variants, groups, both publish "
      "modes, FDT cenc, fdt_start_id anywhere incl. just below 2^20. Per instance: exact TOI set vs the model, every File attribute and the FEC OTI equal to what was given, Expires = publish instant + duration, "
      "ids previous+1 mod 2^20 (runs crossing the wrap), one id one content, identical reception by flute's receiver; polling schedules <= 250 ms check that each instance is superseded before it expires.",
      "DESIGN.md section 4 C10")
claim("C11", "exploration",
      "proptest-generated operation histories on the sender with caller-supplied time; ordering invariant over the decoded packet stream (an object packet only after a completely emitted instance listing it)",
      "Sequences add / remove / publish / read-n / drain / advance / trigger over 1-3 priority queues with multiplexing, both publish modes, start times, carousel and pacing, tiny session symbols so that an FDT "
      "instance spans many packets. The reference receiver decides when an instance is completely emitted; every object packet must be covered by such an instance, none may fall inside the first emission of "
      "an instance or between an explicit publish() and the completion of the new instance.",
      "DESIGN.md section 4 C11")
claim("C12", "exploration",
      "proptest-generated operation histories with the sender's counters sampled after every read(); reference model = wire-level transfer counts from an independent decoder; per-transfer rules shared with C08",
      "Sequences add / remove(+publish) / publish / read-n / drain / advance over objects with max_transfer_count 1-4, carousel none/delay/interval, allow-immediate-stop, removal at arbitrary packet indexes. "
      "Checked: transfers complete on the wire vs configured count, disappearance exactly when done (nb_objects, is_added, get_objects_in_fdt, later FDTs), nb_transfers within one of the wire count and equal after "
      "a None, removal semantics (current transfer completes / at most one packet with B), packets per fixed instant bounded by pending work, only FDT packets once nothing is left. Finite horizon.",
      "DESIGN.md section 4 C12")
claim("C13", "exploration",
      "proptest-generated workloads at a fixed instant + enumerated small grid; per-packet scheduling invariants over the decoded stream and the Subscriber events",
      "Up to 3 priority queues x multiplex_files 0..3 x interleave 1..4 x 1-6 objects (0 to several blocks, 1-2 transfers) added before the first read or after n packets, both publish modes; the thorough tier "
      "enumerates a small grid exhaustively (quick: a deterministic slice). Invariants: no packet of a lower-priority object while a published unfinished object of a higher-priority queue exists, at most "
      "max(1, multiplex_files) open transfers per queue, round-robin among them, FIFO first starts, at most interleave_blocks open source blocks opened in increasing order.",
      "DESIGN.md section 4 C13")
claim("C14", "exploration",
      "proptest-generated polling schedules (non-decreasing virtual instants from 1 us to minutes) and timing parameters; never-early / due-ness relations over observed (instant, packet) pairs",
      "Objects with start times before/at/after now, carousel delay/interval incl. 0, target duration/deadline incl. 0 and past, sizes 0 / one symbol / many, trigger_transfer_at. No transfer starts before its "
      "start time, no carousel group earlier than its gap, packet i of a paced transfer never before start + i*(target/source packets) (exact integer arithmetic, 1 ns per packet + 1 us allowance), due packets are "
      "out on drained polls of single-object sessions; degenerate inputs must not panic or stall (watchdog).",
      "DESIGN.md section 4 C14")
claim("C15", "exploration",
      "proptest-generated stateful operation sequences against a reference model (set of live TOIs), wire values decoded independently; full trips around the 16-bit space",
      "Sequences allocate / drop handle / drop handle in another thread / add with reserved TOI / add implicitly / remove / transmit-all, 60 steps, for every TOI width and initial value {1, 0, max-2..max, random None, "
      "arbitrary}; every returned TOI is non-zero, inside the width, not live, and is the TOI in the packets and in the FDT entry. 70 000-allocation runs on the 16-bit width with long-lived handles check skipping "
      "of reserved values across the wrap. Send/Sync bounds are asserted at compile time; schedule exploration of threads is outside this technique.",
      "DESIGN.md section 4 C15")
claim("C20", "exploration",
      "differential testing: the same object sent from a buffer and from another source kind with a generated read-chunking schedule; packet sequences compared byte for byte",
      "Object x OTI (5 schemes, E, B, parity, interleave) x 1-3 transfers, source in {cached file, file stream, Cursor, BufReader<File> of capacity 1..8192, harness stream returning fixed small / random / "
      "one-byte chunks}; identical configuration, TOIs and instants, so every packet must be identical to the buffer run; the harness stream asserts a seek to 0 before each transfer.",
      "DESIGN.md section 4 C20")

ALL = ["C%02d" % i for i in range(1, 21)]

def main():
    checks = []
    for pid in ALL:
        if pid not in P:
            continue
        e = P[pid]
        checks.append({
            "property_id": pid,
            "quick_cmd": "./check %s quick" % pid,
            "thorough_cmd": "./check %s thorough" % pid,
            "evidence_file": "/verif/evidence/%s.json" % pid,
            "replay_cmd_template": "./check replay {path}",
            "engine": "flute-verif",
            "level_claimed": {"category": e["category"], "text": e["text"], "design_ref": e["design_ref"]},
            "level_note": e["note"],
            "technique": e["technique"],
        })
    na = [{"property_id": pid, "reason": "check not built yet in this session (work in progress; no technique switch intended)"}
          for pid in ALL if pid not in P]
    m = {
        "version": 1,
        "setup_cmd": "cd /verif/harness && CARGO_NET_OFFLINE=true cargo build --release --offline",
        "hooks": {
            "guard": "cargo feature `verif` of the flute crate",
            "enable": "harness/Cargo.toml: flute = { path = \"/repo\", features = [\"verif\"] } (every ./check rebuilds from /repo's working tree)",
            "baseline_off_cmd": "cd /repo && PATH=$PATH:/root/miniconda/bin cargo test --workspace --no-fail-fast --offline",
            "source_commits": [l.split()[0] for l in REPO_HOOK_COMMITS],
            "add_only": True,
        },
        "engines": [
            {"name": "flute-verif", "path": "/verif/harness",
             "serves_properties": [c["property_id"] for c in checks],
             "kind_free_text": "Rust binary: proptest 1.11 TestRunner per worker thread (fixed seeds derived from VERIF_SEED), bounded exhaustive enumerations, "
                               "independent RFC reference codecs as oracles, monitoring ObjectWriter, counting allocator, hang watchdog, replay of saved cases"},
            {"name": "libfuzzer-stage", "path": "/verif/fuzz",
             "serves_properties": ["C04", "C06"],
             "kind_free_text": "cargo-fuzz (nightly, libFuzzer + ASan) targets c04_sequence / c06_parse calling the same oracle functions of the harness library "
                               "(props::c04::run_bytes, props::c06::run_bytes); run by tools/fuzz_stage.sh as the last stage of `./check C04|C06 thorough` "
                               "(8 campaigns bounded by -runs, seeds derived from VERIF_SEED); artifacts are re-run by the stable binary and become ordinary replay files"},
        ],
        "checks": checks,
        "not_applicable": na,
        "notes": "Known findings: /verif/known_findings.json (open entries are excluded by signature, pinned and printed as KNOWN-FINDING; fixed entries are regression cases). "
                 "Exit codes: 0 held, 1 VIOLATION, 2 inconclusive (harness build failure, hang in a property whose statement does not cover termination).",
    }
    out = "/verif/MANIFEST.json"
    json.dump(m, open(out, "w"), indent=1)
    try:
        import jsonschema
        jsonschema.validate(m, json.load(open("/root/.vp/MANIFEST.schema.json")))
        print("MANIFEST.json valid;", len(checks), "checks claimed,", len(na), "not yet claimed")
    except ImportError:
        print("jsonschema not importable here; run with python3-vt to validate")

if __name__ == "__main__":
    main()
