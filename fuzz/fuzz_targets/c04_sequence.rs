#![no_main]
//! libFuzzer target for C04: the input is decoded into (corpus session, mutation list) and run through
//! the same oracle as the stable binary (no panic / overflow, heap bound, receiver still usable).
use libfuzzer_sys::fuzz_target;

fuzz_target!(|data: &[u8]| {
    if let Err(m) = fv::props::c04::run_bytes(data) {
        panic!("C04 violated: {}", m);
    }
});
