#![no_main]
//! libFuzzer target for C06: arbitrary bytes; flute's parser and the reference decoder must agree on
//! accept/reject of the LCT / extension structure and, when both accept, on every field.
use libfuzzer_sys::fuzz_target;

fuzz_target!(|data: &[u8]| {
    if let Err(m) = fv::props::c06::run_bytes(data) {
        panic!("C06 violated: {}", m);
    }
});
