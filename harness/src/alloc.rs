//! Counting global allocator.
//!
//! * per-thread live bytes and per-thread peak (thread-locals, const-initialised so that the
//!   allocator never allocates while being used);
//! * a hard ceiling on a single request and on the process-wide live total: above it the
//!   allocator returns null, Rust's `handle_alloc_error` aborts, and the SIGABRT handler in
//!   `watchdog.rs` attributes the abort to the case the thread had published.

use std::alloc::{GlobalAlloc, Layout, System};
use std::cell::Cell;
use std::sync::atomic::{AtomicUsize, Ordering};

pub struct Counting;

thread_local! {
    static LIVE: Cell<isize> = const { Cell::new(0) };
    static PEAK: Cell<isize> = const { Cell::new(0) };
    static BIGGEST: Cell<usize> = const { Cell::new(0) };
}

/// single request ceiling (bytes)
pub static MAX_SINGLE: AtomicUsize = AtomicUsize::new(3 << 30);
/// per-thread live ceiling (bytes); a process-wide counter would put one contended cache line
/// into every allocation of 16 workers
pub static MAX_TOTAL: AtomicUsize = AtomicUsize::new(6 << 30);

#[inline]
fn over(n: usize) -> bool {
    let live = LIVE.try_with(|l| l.get()).unwrap_or(0).max(0) as usize;
    live.saturating_add(n) > MAX_TOTAL.load(Ordering::Relaxed)
}
/// size of the request that was refused (0 = none)
pub static REFUSED: AtomicUsize = AtomicUsize::new(0);

thread_local! {
    static PAUSED: Cell<u32> = const { Cell::new(0) };
}

/// While a `Pause` is alive the calling thread's allocations are not counted (used by the
/// harness' own bookkeeping, e.g. the monitoring writer, so that it does not pollute the
/// measurement of the receiver's heap).
pub struct Pause;

pub fn pause() -> Pause {
    let _ = PAUSED.try_with(|p| p.set(p.get() + 1));
    Pause
}

impl Drop for Pause {
    fn drop(&mut self) {
        let _ = PAUSED.try_with(|p| p.set(p.get().saturating_sub(1)));
    }
}

#[inline]
fn paused() -> bool {
    PAUSED.try_with(|p| p.get() > 0).unwrap_or(false)
}

#[inline]
fn add(n: usize) {
    if paused() {
        return;
    }
    let _ = LIVE.try_with(|l| {
        let v = l.get() + n as isize;
        l.set(v);
        let _ = PEAK.try_with(|p| {
            if v > p.get() {
                p.set(v)
            }
        });
    });
    let _ = BIGGEST.try_with(|b| {
        if n > b.get() {
            b.set(n)
        }
    });
}

#[inline]
fn sub(n: usize) {
    if paused() {
        return;
    }
    let _ = LIVE.try_with(|l| l.set(l.get() - n as isize));
}

unsafe impl GlobalAlloc for Counting {
    unsafe fn alloc(&self, layout: Layout) -> *mut u8 {
        let n = layout.size();
        if n > MAX_SINGLE.load(Ordering::Relaxed)
            || over(n)
        {
            REFUSED.store(n, Ordering::SeqCst);
            return std::ptr::null_mut();
        }
        let p = System.alloc(layout);
        if !p.is_null() {
            add(n);
        }
        p
    }
    unsafe fn alloc_zeroed(&self, layout: Layout) -> *mut u8 {
        let n = layout.size();
        if n > MAX_SINGLE.load(Ordering::Relaxed)
            || over(n)
        {
            REFUSED.store(n, Ordering::SeqCst);
            return std::ptr::null_mut();
        }
        let p = System.alloc_zeroed(layout);
        if !p.is_null() {
            add(n);
        }
        p
    }
    unsafe fn dealloc(&self, ptr: *mut u8, layout: Layout) {
        System.dealloc(ptr, layout);
        sub(layout.size());
    }
    unsafe fn realloc(&self, ptr: *mut u8, layout: Layout, new_size: usize) -> *mut u8 {
        if new_size > layout.size() {
            let extra = new_size - layout.size();
            if new_size > MAX_SINGLE.load(Ordering::Relaxed)
                || over(extra)
            {
                REFUSED.store(new_size, Ordering::SeqCst);
                return std::ptr::null_mut();
            }
        }
        let p = System.realloc(ptr, layout, new_size);
        if !p.is_null() {
            if new_size >= layout.size() {
                add(new_size - layout.size());
            } else {
                sub(layout.size() - new_size);
            }
        }
        p
    }
}

/// live bytes allocated (and not yet freed) by the calling thread; may be negative when the
/// thread frees memory another thread allocated
pub fn live() -> isize {
    LIVE.with(|l| l.get())
}

/// reset the calling thread's peak to its current live value and return that value
pub fn reset_peak() -> isize {
    let v = live();
    PEAK.with(|p| p.set(v));
    BIGGEST.with(|b| b.set(0));
    v
}

/// highest live value seen on this thread since the last `reset_peak`
pub fn peak() -> isize {
    PEAK.with(|p| p.get())
}

/// largest single allocation request seen on this thread since the last `reset_peak`
pub fn biggest() -> usize {
    BIGGEST.with(|b| b.get())
}

