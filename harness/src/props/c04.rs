//! C04 Untrusted input: no packet sequence can panic, hang or blow up the receiver.

use crate::alloc;
use crate::corpus::{self, CorpusSession};
use crate::drive::*;
use crate::engine::*;
use crate::monitor::Faults;
use crate::rfc::fdt::{ForeignFdt, ForeignFile};
use crate::rfc::fti::{self, Fti, PayloadId, Scheme};
use crate::rfc::lct::{self, Ext, LctSpec};
use crate::rfc::pkt;
use crate::spec::*;
use proptest::prelude::*;
use serde::{Deserialize, Serialize};
use serde_json::{json, Value};
use std::sync::OnceLock;
use std::time::Duration;

pub const HOSTILE_TSI: u64 = 1;
pub const PROBE_TSI: u64 = 2;

fn corpus_cached(idx: usize) -> &'static CorpusSession {
    static C: OnceLock<Vec<OnceLock<Result<CorpusSession, String>>>> = OnceLock::new();
    let v = C.get_or_init(|| (0..corpus::CORPUS_TOTAL).map(|_| OnceLock::new()).collect());
    let i = idx % corpus::CORPUS_TOTAL;
    v[i].get_or_init(|| corpus::build(i, HOSTILE_TSI)).as_ref().expect("corpus session builds")
}

/// probe sessions for TSI 1..=40 (built once)
fn probe_cached(tsi: u64) -> &'static CorpusSession {
    static P: OnceLock<Vec<OnceLock<CorpusSession>>> = OnceLock::new();
    let v = P.get_or_init(|| (0..41).map(|_| OnceLock::new()).collect());
    let i = (tsi as usize).min(40);
    v[i].get_or_init(|| corpus::probe_session(i as u64, i as u64).expect("probe session"))
}

/// a TSI in 2..=40 that no packet of the sequence carries (read with the reference LCT decoder,
/// whatever the version nibble says)
pub fn unused_tsi(seq: &[Vec<u8>]) -> u64 {
    let mut used = [false; 41];
    for p in seq {
        if let Ok(l) = lct::decode(p) {
            if l.tsi <= 40 {
                used[l.tsi as usize] = true;
            }
        }
    }
    (2..=40u64).find(|t| !used[*t as usize]).unwrap_or(40)
}

/// receiver configuration of the untrusted-input runs: a small, explicit cache limit so that
/// "allocating beyond the configured limits" is measurable
pub fn rx_spec(cache: usize) -> RxSpec {
    RxSpec { object_max_cache_size: Some(cache), max_objects_error: 4, ..RxSpec::default_once() }
}

/// heap bound for a hostile sequence of `n` packets under a per-object limit `cache`:
/// every packet may open one object (<= 64 x cache incl. per-symbol bookkeeping of E=1 blocks) or
/// one FDT instance (fixed 1 MiB limit inside flute), plus slack
/// heap bound of a hostile sequence under a per-object limit `cache`: memory is attributed to what
/// the sequence can open, not to its length. Every distinct (TSI, TOI != 0) may hold an object
/// (<= 64 x cache incl. the per-symbol bookkeeping of E = 1 blocks, + 1 MiB for its block table and
/// writer), every distinct (TSI, FDT instance id) an FDT instance (block limit = the constant 1 MiB of
/// flute, same 64 x amplification), every datagram the reference cannot decode counts as one object.
/// A sequence that grows ONE object with many packets is therefore held to one object's budget.
pub fn heap_bound_seq(seq: &[Vec<u8>], cache: usize) -> usize {
    let mut objects: std::collections::BTreeSet<(u64, u128)> = Default::default();
    let mut instances: std::collections::BTreeSet<(u64, u32)> = Default::default();
    let mut opaque = 0usize;
    for p in seq {
        match crate::rfc::pkt::decode(p, 0) {
            Ok(d) => {
                if d.lct.toi == 0 {
                    instances.insert((d.lct.tsi, d.fdt.map(|f| f.1).unwrap_or(u32::MAX)));
                } else {
                    objects.insert((d.lct.tsi, d.lct.toi));
                }
            }
            Err(_) => match crate::rfc::lct::decode(p) {
                Ok(h) if h.toi != 0 => {
                    objects.insert((h.tsi, h.toi));
                }
                _ => opaque += 1,
            },
        }
    }
    (4 << 20) + (objects.len() + opaque) * (64 * cache + (1 << 20)) + (instances.len() + opaque) * (64 * cache.max(1 << 20) + (3 << 20))
}

pub fn single_alloc_bound(cache: usize) -> usize {
    (2 << 20) + 64 * cache.max(1 << 20)
}

pub struct RunOutcome {
    pub all_rejected: bool,
    pub accepted: usize,
    pub parsed: usize,
}

/// push a hostile sequence into a fresh receiver and evaluate the C04 oracle
pub fn run_sequence(seq: &[Vec<u8>], cache: usize, check_same_tsi: bool) -> Result<RunOutcome, String> {
    let base = alloc::reset_peak();
    let mut rx = Rx::new(&rx_spec(cache), Faults::none());
    let mut accepted = 0usize;
    let mut parsed = 0usize;
    for (i, p) in seq.iter().enumerate() {
        let now = t0() + Duration::from_millis(i as u64);
        let r = caught(|| rx.push(p, now));
        match r {
            Ok(true) => accepted += 1,
            Ok(false) => {}
            Err(pm) => return Err(format!("receiver panicked on packet {} of {} ({} bytes: {}): {}", i, seq.len(), p.len(), hex(p, 64), pm)),
        }
        if flute::core::alc::parse_alc_pkt(p).is_ok() {
            parsed += 1;
        }
    }
    let peak = (alloc::peak() - base).max(0) as usize;
    let biggest = alloc::biggest();
    if biggest > single_alloc_bound(cache) {
        return Err(format!(
            "receiver requested a single allocation of {} bytes while object_max_cache_size is {} (FDT instances: 1 MiB); sequence of {} packets",
            biggest,
            cache,
            seq.len()
        ));
    }
    if peak > heap_bound_seq(seq, cache) {
        return Err(format!(
            "receiver heap grew by {} bytes on {} packets with object_max_cache_size {} (bound {})",
            peak,
            seq.len(),
            cache,
            heap_bound_seq(seq, cache)
        ));
    }
    // (i) a valid session on a TSI the hostile packets did not use is still delivered
    deliver_probe(&mut rx, probe_cached(unused_tsi(seq)), seq.len())?;
    // (ii) when every hostile packet was rejected the same TSI is still usable
    let all_rejected = accepted == 0;
    if all_rejected && check_same_tsi {
        deliver_probe(&mut rx, probe_cached(HOSTILE_TSI), seq.len() + 100)?;
    }
    let r = caught(|| drop(rx));
    if let Err(pm) = r {
        return Err(format!("receiver panicked while being dropped: {}", pm));
    }
    Ok(RunOutcome { all_rejected, accepted, parsed })
}

fn deliver_probe(rx: &mut Rx, probe: &CorpusSession, t_off: usize) -> Result<(), String> {
    let before = rx.mon.writers().len();
    for (i, (_, p)) in probe.packets.iter().enumerate() {
        let now = t0() + Duration::from_millis((t_off + i) as u64);
        match caught(|| rx.push(p, now)) {
            Ok(true) => {}
            Ok(false) => return Err(format!("a valid packet of a fresh session (TSI {}) was rejected after the hostile sequence", probe.sender.tsi)),
            Err(pm) => return Err(format!("receiver panicked on a valid packet after the hostile sequence: {}", pm)),
        }
    }
    let ws = rx.mon.writers();
    let (toi, bytes) = &probe.expected[0];
    let ok = ws[before.min(ws.len())..].iter().any(|w| w.tsi == probe.sender.tsi && w.toi == *toi && w.completed() && w.data == *bytes);
    if !ok {
        return Err(format!(
            "receiver no longer usable: a valid session on TSI {} pushed after the hostile sequence was not delivered (writers since: {:?})",
            probe.sender.tsi,
            ws[before.min(ws.len())..].iter().map(|w| format!("tsi={} toi={} {}", w.tsi, w.toi, w.trace())).collect::<Vec<_>>()
        ));
    }
    Ok(())
}

// ------------------------------------------------------------------------------------------
// "a valid session pushed afterwards is still delivered", same TSI and same objects: the first
// pass is the valid session damaged so that its object FAILS (object packets lost, the close-object
// flag set on packets that are not the last one; FDT packets untouched, no payload altered, so a
// wrong copy can never complete), the second pass is the intact session

#[derive(Debug, Clone, Serialize, Deserialize)]
pub struct RetryCase {
    pub session: usize,
    /// object packets lost in the first pass (indices into the object packets, mapped monotonically)
    pub lose: Vec<u16>,
    /// object packets whose close-object flag is set in the first pass
    pub close: Vec<u16>,
    /// receiver's max_objects_error (0 = failed objects are forgotten at once, the default)
    pub max_objects_error: usize,
}

pub fn run_retry(c: &RetryCase) -> CaseResult {
    let cs = corpus_cached(c.session);
    let mut info = CaseInfo::new();
    let obj_idx: Vec<usize> = cs.packets.iter().enumerate().filter(|(_, p)| crate::rfc::lct::decode(&p.1).map(|h| h.toi != 0).unwrap_or(false)).map(|(i, _)| i).collect();
    if obj_idx.is_empty() {
        return Ok(CaseInfo::excluded("domain: session without object packets"));
    }
    let pick = |v: &[u16]| -> std::collections::BTreeSet<usize> { v.iter().map(|i| obj_idx[((*i as usize) * obj_idx.len()) >> 16]).collect() };
    let lose = pick(&c.lose);
    let close = pick(&c.close);
    let spec = RxSpec { object_max_cache_size: Some(1 << 20), max_objects_error: c.max_objects_error, ..RxSpec::default_once() };
    let mut rx = Rx::new(&spec, Faults::none());
    let mut n = 0u64;
    for (i, (_, p)) in cs.packets.iter().enumerate() {
        if lose.contains(&i) {
            continue;
        }
        let p = if close.contains(&i) { apply_field_edit(p, &FieldEdit::CloseObject(true)) } else { p.clone() };
        n += 1;
        if let Err(pm) = caught(|| rx.push(&p, t0() + Duration::from_millis(n))) {
            return Err(format!("receiver panicked in the damaged first pass: {}", pm));
        }
    }
    let first = rx.mon.writers();
    let failed_first = first.iter().any(|w| w.failed());
    let completed_first = first.iter().filter(|w| w.completed()).count();
    // second pass: the intact session, every packet in order
    for (_, p) in cs.packets.iter() {
        n += 1;
        if let Err(pm) = caught(|| rx.push(p, t0() + Duration::from_millis(n))) {
            return Err(format!("receiver panicked on the valid session after a damaged one: {}", pm));
        }
    }
    let ws = rx.mon.writers();
    for (toi, bytes) in &cs.expected {
        let mine: Vec<_> = ws.iter().filter(|w| w.toi == *toi).collect();
        if mine.iter().any(|w| w.completed() && w.data != *bytes) {
            return Err(format!("toi {}: a copy completed with bytes that are not the object (no payload was altered)", toi));
        }
        if !mine.iter().any(|w| w.completed() && w.data == *bytes) {
            return Err(format!(
                "[{}] toi {}: the object failed in a damaged first pass ({} object packets lost, close-object flag set on {}; writers then: {:?}) and the intact session pushed afterwards on the same TSI was not delivered (max_objects_error = {}, nb_objects_error() = {}, nb_objects() = {}); writers: {:?}",
                cs.label,
                toi,
                lose.len(),
                close.len(),
                first.iter().map(|w| w.trace()).collect::<Vec<_>>(),
                c.max_objects_error,
                rx.mr.nb_objects_error(),
                rx.mr.nb_objects(),
                mine.iter().map(|w| w.trace()).collect::<Vec<_>>()
            ));
        }
    }
    info.nt(failed_first && completed_first == 0);
    info.label_if(failed_first, "object failed in the first pass");
    info.label_if(completed_first > 0, "object completed in the first pass already");
    info.label(format!("max_objects_error={}", c.max_objects_error));
    Ok(info)
}

fn retry_strategy() -> BoxedStrategy<RetryCase> {
    (0usize..corpus::CORPUS_TOTAL, proptest::collection::vec(any::<u16>(), 0..4), proptest::collection::vec(any::<u16>(), 0..3), prop_oneof![Just(0usize), Just(1), Just(4)])
        .prop_map(|(session, lose, close, max_objects_error)| RetryCase { session, lose, close, max_objects_error })
        .boxed()
}

pub fn hex(b: &[u8], max: usize) -> String {
    let mut s: String = b.iter().take(max).map(|x| format!("{:02x}", x)).collect();
    if b.len() > max {
        s.push('…');
    }
    s
}

// ------------------------------------------------------------------------------------------
// (b) single-byte substitutions in the header region of corpus packets

#[derive(Debug, Clone, Serialize, Deserialize)]
pub struct Subst {
    pub session: usize,
    pub pkt: usize,
    pub off: usize,
    pub val: u8,
}

pub fn header_region(p: &[u8]) -> usize {
    match pkt::decode(p, 0) {
        Ok(d) => (d.lct.header_len + d.scheme.payload_id_len()).min(p.len()),
        Err(_) => p.len().min(64),
    }
}

pub fn run_subst(s: &Subst) -> CaseResult {
    let cs = corpus_cached(s.session);
    let mut seq: Vec<Vec<u8>> = cs.packets.iter().map(|p| p.1.clone()).collect();
    if s.pkt >= seq.len() || s.off >= seq[s.pkt].len() {
        return Ok(CaseInfo::excluded("domain: offset outside the packet"));
    }
    seq[s.pkt][s.off] = s.val;
    let out = run_sequence(&seq, 16 << 10, false)?;
    let mut info = CaseInfo::new();
    info.nt(out.parsed == seq.len());
    Ok(info)
}

// ------------------------------------------------------------------------------------------
// (c) mutation sequences

#[derive(Debug, Clone, Serialize, Deserialize)]
pub enum FieldEdit {
    HdrLen(i8),
    XorByte0(u8),
    XorByte1(u8),
    Cp(u8),
    Sbn(u32),
    Esi(u32),
    Sbl(u16),
    TransferLen(u64),
    E(u16),
    B(u32),
    MaxN(u32),
    Z(u16),
    N(u16),
    Al(u8),
    M(u8),
    InstanceId(u32),
    FdtVersion(u8),
    Cenc(u8),
    TimeUse(u16),
    Hel(u8, u8),
    Het(u8, u8),
    DropExt(u8),
    DupExt(u8),
    CloseObject(bool),
    CloseSession(bool),
    Toi(u64),
    Tsi(u64),
    PayloadLen(u16),
}

#[derive(Debug, Clone, Serialize, Deserialize)]
pub struct HostileFile {
    pub toi: String,
    pub location: String,
    pub attrs: Vec<(String, String)>,
}

#[derive(Debug, Clone, Serialize, Deserialize)]
pub struct HostileFdt {
    pub instance_id: u32,
    pub expires: String,
    pub inst_attrs: Vec<(String, String)>,
    pub files: Vec<HostileFile>,
    /// 0 = well-formed; otherwise a way to break the document
    pub malform: u8,
    pub malform_at: u16,
    /// number of extra File elements (cloned) to add
    pub many: u16,
    /// symbol size used to packetise the instance
    pub e: u16,
    /// follow-up object packets: (toi index into files, scheme, in-band FTI?, sbn, esi, payload len, close)
    pub follow: Vec<(u8, Scheme, bool, u32, u32, u16, bool)>,
    /// this many of the follow-up packets are sent BEFORE the instance (in-band FTI first, FDT later:
    /// the two announcements of one object may disagree)
    #[serde(default)]
    pub lead: u8,
    /// in-band FTI of the follow-up packets: transfer length = payload length x this (0: x3) ...
    #[serde(default)]
    pub follow_tl_mult: u8,
    /// ... and maximum source block length (0: 4), so that the object may span several blocks
    #[serde(default)]
    pub follow_b: u8,
}

#[derive(Debug, Clone, Serialize, Deserialize)]
pub enum Mut {
    Flip { p: u16, bit: u16 },
    SetByte { p: u16, off: u16, val: u8 },
    Truncate { p: u16, keep: u16 },
    Extend { p: u16, n: u8, fill: u8 },
    Splice { a: u16, b: u16, at: u16 },
    Dup { p: u16, to: u16 },
    Swap { a: u16, b: u16 },
    Drop { p: u16 },
    Field { p: u16, edit: FieldEdit },
    Raw { at: u16, bytes: Vec<u8> },
    Foreign { at: u16, fdt: HostileFdt },
    /// `n` packets of ONE hostile object (in-band FTI announcing an enormous number of tiny blocks)
    /// whose source block numbers climb by `step` per packet: every packet alone is plausible, the
    /// sequence as a whole makes the object's block table grow
    Staircase { at: u16, scheme: Scheme, e: u16, b: u32, blocks: u32, step: u32, n: u16 },
    /// rewrite one attribute value in the XML of the session's OWN FDT instance(s) (single-packet
    /// instances without content encoding; the EXT_FTI length is adjusted): every packet of the
    /// session stays valid, only what the FDT says about the object becomes inconsistent with it
    FdtAttr { name: u8, value: String },
}

#[derive(Debug, Clone, Serialize, Deserialize)]
pub struct SeqCase {
    pub session: usize,
    pub muts: Vec<Mut>,
    pub cache: usize,
}

fn idx(i: u16, len: usize) -> usize {
    if len == 0 {
        0
    } else {
        ((i as usize) * len) >> 16
    }
}

/// rebuild a packet with one field edited (reference decode -> edit -> reference encode)
pub fn apply_field_edit(p: &[u8], e: &FieldEdit) -> Vec<u8> {
    let d = match pkt::decode(p, 0) {
        Ok(d) => d,
        Err(_) => return p.to_vec(),
    };
    let mut spec = LctSpec {
        version: d.lct.version,
        psi: d.lct.psi,
        res: d.lct.res,
        c: d.lct.c,
        cci: d.lct.cci,
        s: d.lct.s,
        o: d.lct.o,
        h: d.lct.h,
        tsi: d.lct.tsi,
        toi: d.lct.toi,
        cp: d.lct.cp,
        close_session: d.lct.close_session,
        close_object: d.lct.close_object,
        exts: d.lct.exts.clone(),
    };
    let mut pid = d.pid;
    let mut payload = d.payload.clone();
    let scheme = d.scheme;
    let mut hdr_delta: i8 = 0;
    let mut xor0 = 0u8;
    let mut xor1 = 0u8;
    let edit_fti = |spec: &mut LctSpec, f: &dyn Fn(&mut Fti)| {
        for x in spec.exts.iter_mut() {
            if x.het == lct::EXT_FTI {
                if let Ok(mut fti) = fti::decode(scheme, x) {
                    f(&mut fti);
                    *x = fti::encode(&fti);
                }
            }
        }
    };
    match e {
        FieldEdit::HdrLen(dl) => hdr_delta = *dl,
        FieldEdit::XorByte0(v) => xor0 = *v,
        FieldEdit::XorByte1(v) => xor1 = *v,
        FieldEdit::Cp(v) => spec.cp = *v,
        FieldEdit::Sbn(v) => pid.sbn = *v,
        FieldEdit::Esi(v) => pid.esi = *v,
        FieldEdit::Sbl(v) => pid.sbl = pid.sbl.map(|_| *v),
        FieldEdit::TransferLen(v) => edit_fti(&mut spec, &|f| f.transfer_length = *v),
        FieldEdit::E(v) => edit_fti(&mut spec, &|f| f.e = *v),
        FieldEdit::B(v) => edit_fti(&mut spec, &|f| f.b = *v),
        FieldEdit::MaxN(v) => edit_fti(&mut spec, &|f| f.max_n = *v),
        FieldEdit::Z(v) => edit_fti(&mut spec, &|f| f.z = *v),
        FieldEdit::N(v) => edit_fti(&mut spec, &|f| f.n = *v),
        FieldEdit::Al(v) => edit_fti(&mut spec, &|f| f.al = *v),
        FieldEdit::M(v) => edit_fti(&mut spec, &|f| f.m = *v),
        FieldEdit::InstanceId(v) => {
            for x in spec.exts.iter_mut() {
                if x.het == lct::EXT_FDT {
                    let ver = lct::parse_ext_fdt(x).map(|a| a.0).unwrap_or(2);
                    *x = lct::ext_fdt(ver, *v);
                }
            }
        }
        FieldEdit::FdtVersion(v) => {
            for x in spec.exts.iter_mut() {
                if x.het == lct::EXT_FDT {
                    let id = lct::parse_ext_fdt(x).map(|a| a.1).unwrap_or(1);
                    *x = lct::ext_fdt(*v, id);
                }
            }
        }
        FieldEdit::Cenc(v) => {
            let mut found = false;
            for x in spec.exts.iter_mut() {
                if x.het == lct::EXT_CENC {
                    *x = lct::ext_cenc(*v);
                    found = true;
                }
            }
            if !found {
                spec.exts.push(lct::ext_cenc(*v));
            }
        }
        FieldEdit::TimeUse(v) => {
            for x in spec.exts.iter_mut() {
                if x.het == lct::EXT_TIME && x.bytes.len() >= 4 {
                    x.bytes[2] = (*v >> 8) as u8;
                    x.bytes[3] = *v as u8;
                }
            }
        }
        FieldEdit::Hel(i, v) => {
            if !spec.exts.is_empty() {
                let n = spec.exts.len();
                let x = &mut spec.exts[*i as usize % n];
                if x.bytes.len() >= 2 {
                    x.bytes[1] = *v;
                }
            }
        }
        FieldEdit::Het(i, v) => {
            if !spec.exts.is_empty() {
                let n = spec.exts.len();
                let x = &mut spec.exts[*i as usize % n];
                x.bytes[0] = *v;
            }
        }
        FieldEdit::DropExt(i) => {
            if !spec.exts.is_empty() {
                let n = spec.exts.len();
                spec.exts.remove(*i as usize % n);
            }
        }
        FieldEdit::DupExt(i) => {
            if !spec.exts.is_empty() {
                let n = spec.exts.len();
                let x = spec.exts[*i as usize % n].clone();
                spec.exts.push(x);
            }
        }
        FieldEdit::CloseObject(v) => spec.close_object = *v,
        FieldEdit::CloseSession(v) => spec.close_session = *v,
        FieldEdit::Toi(v) => {
            spec.toi = *v as u128;
            spec.o = spec.o.max(2);
        }
        FieldEdit::Tsi(v) => {
            spec.tsi = *v & 0xFFFF_FFFF_FFFF;
            spec.s = 1;
            spec.h = 1;
            spec.o = spec.o.max(1);
        }
        FieldEdit::PayloadLen(n) => payload.resize(*n as usize % 2048, 0xA5),
    }
    if !lct::width_ok(&spec) {
        spec.o = 3;
        spec.h = 1;
        spec.s = 1;
    }
    let mut out = lct::build(&spec);
    out[2] = (out[2] as i16 + hdr_delta as i16).clamp(0, 255) as u8;
    out[0] ^= xor0;
    out[1] ^= xor1;
    out.extend_from_slice(&fti::encode_payload_id(scheme, 0, &pid));
    out.extend_from_slice(&payload);
    out
}

pub fn hostile_fdt_xml(h: &HostileFdt) -> Vec<u8> {
    let mut f = ForeignFdt { attrs: vec![("Expires".into(), h.expires.clone())], groups: vec![], files: vec![] };
    f.attrs.extend(h.inst_attrs.iter().cloned());
    for hf in &h.files {
        let mut ff = ForeignFile { attrs: vec![("TOI".into(), hf.toi.clone()), ("Content-Location".into(), hf.location.clone())], groups: vec![], cache: None };
        ff.attrs.extend(hf.attrs.iter().cloned());
        f.files.push(ff);
    }
    if let Some(first) = f.files.first().cloned() {
        for i in 0..h.many {
            let mut c = first.clone();
            c.attrs[0].1 = format!("{}", 1000 + i as u32);
            f.files.push(c);
        }
    }
    let mut xml = f.to_xml().into_bytes();
    let at = if xml.is_empty() { 0 } else { h.malform_at as usize % xml.len() };
    match h.malform {
        0 => {}
        1 => xml.truncate(at),
        2 => xml[at] = b'<',
        3 => xml[at] = 0xFF,
        4 => xml[at] = b'&',
        5 => {
            let mut nested = b"<?xml version=\"1.0\"?><FDT-Instance Expires=\"1\">".to_vec();
            for _ in 0..(h.malform_at as usize % 3000) {
                nested.extend_from_slice(b"<File>");
            }
            xml = nested;
        }
        6 => xml[at] = 0,
        7 => xml.splice(at..at, b"<!DOCTYPE x [<!ENTITY a \"aaaaaaaaaa\"><!ENTITY b \"&a;&a;&a;&a;&a;&a;&a;&a;\">]>".iter().copied()).for_each(drop),
        _ => xml.splice(at..at, b"<File TOI=\"7\" Content-Location=\"x\"".iter().copied()).for_each(drop),
    }
    xml
}

/// packets (reference-built) carrying a foreign FDT instance under No-Code, plus follow-up object packets
pub fn hostile_fdt_packets(h: &HostileFdt, tsi: u64) -> Vec<Vec<u8>> {
    let xml = hostile_fdt_xml(h);
    let e = h.e.max(16) as usize;
    let b = 64usize;
    let mut out = vec![];
    let mut f = Fti::blank(Scheme::NoCode);
    f.transfer_length = xml.len() as u64;
    f.e = e as u16;
    f.b = b as u32;
    let part = crate::rfc::partition::partition(xml.len() as u128, e as u128, b as u128).unwrap();
    for sbn in 0..part.n {
        for esi in 0..part.k(sbn) {
            let off = (part.offset(sbn) + esi * e as u128) as usize;
            let end = (off + e).min(xml.len());
            let spec = LctSpec {
                version: 1,
                psi: 0,
                res: 0,
                c: 0,
                cci: 0,
                s: 1,
                o: 0,
                h: 1,
                tsi,
                toi: 0,
                cp: 0,
                close_session: false,
                close_object: false,
                exts: vec![lct::ext_fdt(2, h.instance_id & 0xFFFFF), fti::encode(&f)],
            };
            let mut p = lct::build(&spec);
            p.extend_from_slice(&fti::encode_payload_id(Scheme::NoCode, 0, &PayloadId { sbn: sbn as u32, esi: esi as u32, sbl: None }));
            p.extend_from_slice(&xml[off..end]);
            out.push(p);
            if out.len() > 400 {
                break;
            }
        }
    }
    let mut lead_pkts: Vec<Vec<u8>> = vec![];
    let nlead = (h.lead as usize).min(h.follow.len());
    for (fk, (fi, scheme, inband, sbn, esi, plen, close)) in h.follow.iter().enumerate() {
        let toi: u128 = h.files.get(*fi as usize % h.files.len().max(1)).and_then(|f| f.toi.trim().parse::<u128>().ok()).unwrap_or(3);
        let mut exts: Vec<Ext> = vec![];
        if *inband {
            let mut f = Fti::blank(*scheme);
            f.transfer_length = (*plen as u64) * if h.follow_tl_mult == 0 { 3 } else { h.follow_tl_mult as u64 };
            f.e = (*plen).max(1);
            f.b = if h.follow_b == 0 { 4 } else { h.follow_b as u32 };
            f.max_n = 6;
            f.z = 1;
            f.n = 1;
            f.al = 1;
            exts.push(fti::encode(&f));
        }
        let spec = LctSpec {
            version: 1,
            psi: 0,
            res: 0,
            c: 0,
            cci: 0,
            s: 1,
            o: 3,
            h: 1,
            tsi,
            toi: toi & ((1u128 << 112) - 1),
            cp: scheme.fec_id(),
            close_session: false,
            close_object: *close,
            exts,
        };
        let mut p = lct::build(&spec);
        p.extend_from_slice(&fti::encode_payload_id(*scheme, 0, &PayloadId { sbn: *sbn, esi: *esi, sbl: Some(4) }));
        p.extend(std::iter::repeat(0x42u8).take(*plen as usize));
        if fk < nlead {
            lead_pkts.push(p);
        } else {
            out.push(p);
        }
    }
    lead_pkts.extend(out);
    lead_pkts
}

pub fn apply_muts(base: &[Vec<u8>], muts: &[Mut]) -> Vec<Vec<u8>> {
    let mut seq: Vec<Vec<u8>> = base.to_vec();
    for m in muts {
        let n = seq.len();
        match m {
            Mut::Flip { p, bit } => {
                if n > 0 {
                    let i = idx(*p, n);
                    let l = seq[i].len() * 8;
                    if l > 0 {
                        let b = idx(*bit, l);
                        seq[i][b / 8] ^= 1 << (b % 8);
                    }
                }
            }
            Mut::SetByte { p, off, val } => {
                if n > 0 {
                    let i = idx(*p, n);
                    let l = seq[i].len();
                    if l > 0 {
                        let o = idx(*off, l);
                        seq[i][o] = *val;
                    }
                }
            }
            Mut::Truncate { p, keep } => {
                if n > 0 {
                    let i = idx(*p, n);
                    let l = seq[i].len();
                    let k = idx(*keep, l + 1);
                    seq[i].truncate(k);
                }
            }
            Mut::Extend { p, n: cnt, fill } => {
                if n > 0 {
                    let i = idx(*p, n);
                    seq[i].extend(std::iter::repeat(*fill).take(*cnt as usize));
                }
            }
            Mut::Splice { a, b, at } => {
                if n > 0 {
                    let ia = idx(*a, n);
                    let ib = idx(*b, n);
                    let la = seq[ia].len();
                    let cut = idx(*at, la + 1);
                    let mut x = seq[ia][..cut].to_vec();
                    let lb = seq[ib].len();
                    x.extend_from_slice(&seq[ib][cut.min(lb)..]);
                    seq[ia] = x;
                }
            }
            Mut::Dup { p, to } => {
                if n > 0 {
                    let i = idx(*p, n);
                    let t = idx(*to, n + 1);
                    let x = seq[i].clone();
                    seq.insert(t, x);
                }
            }
            Mut::Swap { a, b } => {
                if n > 0 {
                    let ia = idx(*a, n);
                    let ib = idx(*b, n);
                    seq.swap(ia, ib);
                }
            }
            Mut::Drop { p } => {
                if n > 0 {
                    let i = idx(*p, n);
                    seq.remove(i);
                }
            }
            Mut::Field { p, edit } => {
                if n > 0 {
                    let i = idx(*p, n);
                    seq[i] = apply_field_edit(&seq[i], edit);
                }
            }
            Mut::Raw { at, bytes } => {
                let t = idx(*at, n + 1);
                seq.insert(t, bytes.clone());
            }
            Mut::Staircase { at, scheme, e, b, blocks, step, n: count } => {
                let t = idx(*at, n + 1);
                let e = (*e).max(1);
                let b = (*b).max(1);
                let mut f = Fti::blank(*scheme);
                f.transfer_length = (e as u64 * b as u64 * *blocks as u64).min((1u64 << 40) - 1);
                f.e = e;
                f.b = b;
                f.max_n = b + 1;
                f.z = 1;
                f.n = 1;
                f.al = 1;
                for k in 0..(*count as usize).min(400) {
                    let spec = LctSpec {
                        version: 1,
                        psi: 0,
                        res: 0,
                        c: 0,
                        cci: 0,
                        s: 1,
                        o: 1,
                        h: 1,
                        tsi: HOSTILE_TSI,
                        toi: 0x57A1,
                        cp: scheme.fec_id(),
                        close_session: false,
                        close_object: false,
                        exts: vec![fti::encode(&f)],
                    };
                    let mut p = lct::build(&spec);
                    let sbn = (k as u64 * *step as u64).min(u32::MAX as u64) as u32;
                    p.extend_from_slice(&fti::encode_payload_id(*scheme, 0, &PayloadId { sbn, esi: 0, sbl: Some(b.min(65535) as u16) }));
                    p.extend(std::iter::repeat(0x5au8).take(e as usize));
                    seq.insert((t + k).min(seq.len()), p);
                }
            }
            Mut::FdtAttr { name, value } => {
                let attr = FDT_ATTRS[*name as usize % FDT_ATTRS.len()];
                for p in seq.iter_mut() {
                    if let Some(q) = rewrite_fdt_attr(p, attr, value) {
                        *p = q;
                    }
                }
            }
            Mut::Foreign { at, fdt } => {
                let t = idx(*at, n + 1);
                let pk = hostile_fdt_packets(fdt, HOSTILE_TSI);
                for (k, p) in pk.into_iter().enumerate() {
                    seq.insert(t + k, p);
                }
            }
        }
    }
    seq
}

pub const FDT_ATTRS: [&str; 11] = [
    "Content-Length",
    "Transfer-Length",
    "FEC-OTI-Maximum-Source-Block-Length",
    "FEC-OTI-Encoding-Symbol-Length",
    "FEC-OTI-Max-Number-of-Encoding-Symbols",
    "FEC-OTI-FEC-Encoding-ID",
    "FEC-OTI-Scheme-Specific-Info",
    "Content-Encoding",
    "Content-MD5",
    "Expires",
    "TOI",
];

/// a TOI 0 packet that holds a whole FDT instance in one symbol: the value of the first `name="..."`
/// is replaced and the packet rebuilt with the reference encoder
pub fn rewrite_fdt_attr(p: &[u8], name: &str, value: &str) -> Option<Vec<u8>> {
    let d = pkt::decode(p, 0).ok()?;
    if d.lct.toi != 0 || d.fdt.is_none() || d.pid.sbn != 0 || d.pid.esi != 0 {
        return None;
    }
    let f = d.fti.as_ref()?;
    if f.transfer_length as usize != d.payload.len() || d.cenc.map(|c| c != 0).unwrap_or(false) {
        return None;
    }
    let xml = std::str::from_utf8(&d.payload).ok()?;
    let key = format!(" {}=\"", name);
    let start = xml.find(&key)? + key.len();
    let end = start + xml[start..].find('"')?;
    let clean: String = value.chars().filter(|c| *c != '"' && *c != '<' && *c != '&' && !c.is_control()).collect();
    let new_xml = format!("{}{}{}", &xml[..start], clean, &xml[end..]);
    let mut fti2 = f.clone();
    fti2.transfer_length = new_xml.len() as u64;
    let mut exts = d.lct.exts.clone();
    for x in exts.iter_mut() {
        if x.het == lct::EXT_FTI {
            *x = fti::encode(&fti2);
        }
    }
    let spec = LctSpec { version: d.lct.version, psi: d.lct.psi, res: d.lct.res, c: d.lct.c, cci: d.lct.cci, s: d.lct.s, o: d.lct.o, h: d.lct.h, tsi: d.lct.tsi, toi: 0, cp: d.lct.cp, close_session: d.lct.close_session, close_object: d.lct.close_object, exts };
    let mut out = lct::build(&spec);
    out.extend_from_slice(&fti::encode_payload_id(d.scheme, 0, &d.pid));
    out.extend_from_slice(new_xml.as_bytes());
    Some(out)
}

pub fn run_seq_case(c: &SeqCase) -> CaseResult {
    let cs = corpus_cached(c.session);
    let base: Vec<Vec<u8>> = cs.packets.iter().map(|p| p.1.clone()).collect();
    let seq = apply_muts(&base, &c.muts);
    let out = run_sequence(&seq, c.cache, true)?;
    let mut info = CaseInfo::new();
    let has_foreign = c.muts.iter().any(|m| matches!(m, Mut::Foreign { .. }));
    info.nt(out.parsed > 0 && !c.muts.is_empty());
    info.label_if(has_foreign, "foreign FDT");
    info.label_if(c.muts.iter().any(|m| matches!(m, Mut::FdtAttr { .. })), "attribute of the session's own FDT rewritten");
    info.label_if(out.all_rejected, "all rejected");
    info.label_if(c.muts.iter().any(|m| matches!(m, Mut::Field { .. })), "field-aware edit");
    info.label(format!("muts={}", c.muts.len().min(6)));
    Ok(info)
}

// ---- strategies

fn boundary_u64(bits: u32) -> BoxedStrategy<u64> {
    let max = if bits >= 64 { u64::MAX } else { (1u64 << bits) - 1 };
    prop_oneof![Just(0u64), Just(1), Just(max), Just(max - 1), Just(max / 2 + 1), (0..bits).prop_map(|b| 1u64 << b), 0..=max, 0u64..300].boxed()
}

pub fn field_edit() -> BoxedStrategy<FieldEdit> {
    prop_oneof![
        (-10i8..10).prop_map(FieldEdit::HdrLen),
        any::<u8>().prop_map(FieldEdit::XorByte0),
        any::<u8>().prop_map(FieldEdit::XorByte1),
        prop_oneof![Just(0u8), Just(1), Just(2), Just(5), Just(6), Just(129), any::<u8>()].prop_map(FieldEdit::Cp),
        boundary_u64(32).prop_map(|v| FieldEdit::Sbn(v as u32)),
        boundary_u64(32).prop_map(|v| FieldEdit::Esi(v as u32)),
        boundary_u64(16).prop_map(|v| FieldEdit::Sbl(v as u16)),
        boundary_u64(48).prop_map(FieldEdit::TransferLen),
        boundary_u64(16).prop_map(|v| FieldEdit::E(v as u16)),
        boundary_u64(32).prop_map(|v| FieldEdit::B(v as u32)),
        boundary_u64(16).prop_map(|v| FieldEdit::MaxN(v as u32)),
        boundary_u64(16).prop_map(|v| FieldEdit::Z(v as u16)),
        boundary_u64(16).prop_map(|v| FieldEdit::N(v as u16)),
        boundary_u64(8).prop_map(|v| FieldEdit::Al(v as u8)),
        boundary_u64(8).prop_map(|v| FieldEdit::M(v as u8)),
        boundary_u64(20).prop_map(|v| FieldEdit::InstanceId(v as u32)),
        (0u8..16).prop_map(FieldEdit::FdtVersion),
        any::<u8>().prop_map(FieldEdit::Cenc),
        any::<u16>().prop_map(FieldEdit::TimeUse),
        (any::<u8>(), any::<u8>()).prop_map(|(a, b)| FieldEdit::Hel(a, b)),
        (any::<u8>(), any::<u8>()).prop_map(|(a, b)| FieldEdit::Het(a, b)),
        any::<u8>().prop_map(FieldEdit::DropExt),
        any::<u8>().prop_map(FieldEdit::DupExt),
        any::<bool>().prop_map(FieldEdit::CloseObject),
        any::<bool>().prop_map(FieldEdit::CloseSession),
        boundary_u64(64).prop_map(FieldEdit::Toi),
        boundary_u64(48).prop_map(FieldEdit::Tsi),
        boundary_u64(11).prop_map(|v| FieldEdit::PayloadLen(v as u16)),
    ]
    .boxed()
}

fn numberish() -> BoxedStrategy<String> {
    prop_oneof![
        3 => boundary_u64(64).prop_map(|v| v.to_string()),
        1 => Just("-1".to_string()),
        1 => Just("".to_string()),
        1 => Just("18446744073709551616".to_string()),
        1 => Just("1e9".to_string()),
        1 => Just(" 12 ".to_string()),
        1 => Just("abc".to_string()),
        2 => (0u64..300).prop_map(|v| v.to_string()),
    ]
    .boxed()
}

fn b64ish() -> BoxedStrategy<String> {
    use base64::Engine as _;
    prop_oneof![
        4 => proptest::collection::vec(any::<u8>(), 4).prop_map(|v| base64::engine::general_purpose::STANDARD.encode(v)),
        2 => Just(base64::engine::general_purpose::STANDARD.encode([0u8, 0, 0, 0])),
        1 => Just(base64::engine::general_purpose::STANDARD.encode([1u8, 0, 1, 0])),
        1 => proptest::collection::vec(any::<u8>(), 0..7).prop_map(|v| base64::engine::general_purpose::STANDARD.encode(v)),
        1 => Just("!!!notbase64".to_string()),
    ]
    .boxed()
}

pub fn hostile_fdt() -> BoxedStrategy<HostileFdt> {
    let oti_attr = prop_oneof![
        prop_oneof![Just("0"), Just("1"), Just("2"), Just("5"), Just("6"), Just("129"), Just("7"), Just("300")].prop_map(|v| ("FEC-OTI-FEC-Encoding-ID".to_string(), v.to_string())),
        numberish().prop_map(|v| ("FEC-OTI-Maximum-Source-Block-Length".to_string(), v)),
        numberish().prop_map(|v| ("FEC-OTI-Encoding-Symbol-Length".to_string(), v)),
        numberish().prop_map(|v| ("FEC-OTI-Max-Number-of-Encoding-Symbols".to_string(), v)),
        numberish().prop_map(|v| ("FEC-OTI-FEC-Instance-ID".to_string(), v)),
        b64ish().prop_map(|v| ("FEC-OTI-Scheme-Specific-Info".to_string(), v)),
    ];
    let file_attr = prop_oneof![
        4 => oti_attr.clone(),
        2 => numberish().prop_map(|v| ("Content-Length".to_string(), v)),
        2 => numberish().prop_map(|v| ("Transfer-Length".to_string(), v)),
        1 => prop_oneof![Just("gzip"), Just("zlib"), Just("deflate"), Just("null"), Just("br"), Just("")].prop_map(|v| ("Content-Encoding".to_string(), v.to_string())),
        1 => "[A-Za-z0-9+/=]{0,30}".prop_map(|v| ("Content-MD5".to_string(), v)),
        1 => "[ -~]{0,20}".prop_map(|v| ("Content-Type".to_string(), v)),
    ];
    let file = (prop_oneof![3 => (1u64..6).prop_map(|v| v.to_string()), 1 => numberish()], "[a-z:/.%]{0,20}", proptest::collection::vec(file_attr, 0..7))
        .prop_map(|(toi, location, mut attrs)| {
            attrs.sort_by(|a, b| a.0.cmp(&b.0));
            attrs.dedup_by(|a, b| a.0 == b.0);
            HostileFile { toi, location, attrs }
        });
    (
        boundary_u64(20),
        prop_oneof![3 => Just("4000000000".to_string()), 1 => numberish()],
        proptest::collection::vec(oti_attr, 0..5),
        proptest::collection::vec(file, 0..4),
        prop_oneof![5 => Just(0u8), 3 => 1u8..9],
        any::<u16>(),
        prop_oneof![6 => Just(0u16), 1 => 1u16..50, 1 => Just(10_000u16)],
        prop_oneof![Just(1024u16), Just(64), Just(16)],
        proptest::collection::vec((any::<u8>(), proptest::sample::select(&Scheme::ALL[..]), any::<bool>(), boundary_u64(8).prop_map(|v| v as u32), boundary_u64(8).prop_map(|v| v as u32), 0u16..64, any::<bool>()), 0..6),
        (prop_oneof![2 => Just(0u8), 1 => 1u8..4], prop_oneof![2 => Just(0u8), 1 => 1u8..60], prop_oneof![2 => Just(0u8), 1 => 1u8..5]),
    )
        .prop_map(|(id, expires, mut inst_attrs, files, malform, malform_at, many, e, follow, (lead, follow_tl_mult, follow_b))| {
            inst_attrs.sort_by(|a, b| a.0.cmp(&b.0));
            inst_attrs.dedup_by(|a, b| a.0 == b.0);
            HostileFdt { instance_id: id as u32, expires, inst_attrs, files, malform, malform_at, many, e, follow, lead, follow_tl_mult, follow_b }
        })
        .boxed()
}

pub fn mut_strategy() -> BoxedStrategy<Mut> {
    prop_oneof![
        3 => (any::<u16>(), any::<u16>()).prop_map(|(p, bit)| Mut::Flip { p, bit }),
        2 => (any::<u16>(), any::<u16>(), any::<u8>()).prop_map(|(p, off, val)| Mut::SetByte { p, off, val }),
        2 => (any::<u16>(), any::<u16>()).prop_map(|(p, keep)| Mut::Truncate { p, keep }),
        1 => (any::<u16>(), any::<u8>(), any::<u8>()).prop_map(|(p, n, fill)| Mut::Extend { p, n, fill }),
        1 => (any::<u16>(), any::<u16>(), any::<u16>()).prop_map(|(a, b, at)| Mut::Splice { a, b, at }),
        1 => (any::<u16>(), any::<u16>()).prop_map(|(p, to)| Mut::Dup { p, to }),
        1 => (any::<u16>(), any::<u16>()).prop_map(|(a, b)| Mut::Swap { a, b }),
        1 => any::<u16>().prop_map(|p| Mut::Drop { p }),
        8 => (any::<u16>(), field_edit()).prop_map(|(p, edit)| Mut::Field { p, edit }),
        1 => (any::<u16>(), proptest::collection::vec(any::<u8>(), 0..40)).prop_map(|(at, bytes)| Mut::Raw { at, bytes }),
        4 => (any::<u16>(), hostile_fdt()).prop_map(|(at, fdt)| Mut::Foreign { at, fdt }),
        1 => (
            any::<u16>(),
            prop_oneof![Just(Scheme::NoCode), Just(Scheme::Rs28), Just(Scheme::Rs28Us)],
            prop_oneof![Just(1u16), Just(4), Just(16)],
            1u32..3,
            prop_oneof![Just(1u32 << 23), Just(1 << 16), Just(1 << 20), 1u32..(1 << 24)],
            prop_oneof![3 => Just(4096u32), 2 => Just(4000), 1 => Just(4095), 1 => Just(1), 1 => Just(4097), 2 => 1u32..8192],
            prop_oneof![1 => 2u16..20, 2 => 20u16..320],
        )
            .prop_map(|(at, scheme, e, b, blocks, step, n)| Mut::Staircase { at, scheme, e, b, blocks, step, n }),
        3 => (any::<u8>(), prop_oneof![4 => numberish(), 1 => b64ish(), 1 => prop_oneof![Just("gzip"), Just("zlib"), Just("deflate"), Just("null"), Just("")].prop_map(|v| v.to_string())]).prop_map(|(name, value)| Mut::FdtAttr { name, value }),
    ]
    .boxed()
}

pub fn seq_strategy() -> BoxedStrategy<SeqCase> {
    (0usize..corpus::CORPUS_TOTAL, proptest::collection::vec(mut_strategy(), 1..5), prop_oneof![Just(4usize << 10), Just(16 << 10), Just(64 << 10), Just(1 << 20)])
        .prop_map(|(session, muts, cache)| SeqCase { session, muts, cache })
        .boxed()
}

// ------------------------------------------------------------------------------------------

pub fn run(eng: &mut Engine) {
    eng.assume("flute built with overflow checks and debug assertions on: arithmetic overflow and failed internal assertions are panics and are reported");
    eng.assume("heap oracle: per-thread live bytes from the harness' counting allocator; bound = 4 MiB + distinct (TSI, TOI) x (64 x object_max_cache_size + 1 MiB) + distinct (TSI, FDT instance id) x (64 x 1 MiB + 3 MiB), undecodable datagrams counting as one of each; single request <= 2 MiB + 64 x max(limit, 1 MiB); a refused allocation (> 3 GiB single / 24 GiB total) aborts and is attributed to the published case");
    eng.assume("'bounded time' is a watchdog of 60 s per case (median case < 5 ms)");
    let tier = eng.tier;

    // (a) all byte strings of length <= 3
    eng.chunked(
        PartCfg::new(
            "bytes<=3",
            "every byte string of length 0..3 (16 843 009 strings) pushed into a MultiReceiver (one receiver per first byte, usability probe at the end of each chunk); non-trivial = the 3-byte strings (no test pushes a datagram shorter than a header); distinct by construction",
            16_843_009,
        )
        .hang_violates()
        .limit_s(120),
        257,
        true,
        |c, st| {
            let mut rx = Rx::new(&rx_spec(16 << 10), Faults::none());
            let push = |rx: &mut Rx, b: &[u8], st: &mut Stats| -> Result<(), (Value, String)> {
                match caught(|| rx.push(b, t0())) {
                    Ok(_) => {
                        st.evaluations += 1;
                        Ok(())
                    }
                    Err(pm) => Err((json!({"bytes": b}), format!("receiver panicked on the {}-byte datagram {}: {}", b.len(), hex(b, 8), pm))),
                }
            };
            if c == 256 {
                push(&mut rx, &[], st)?;
                for a in 0..=255u8 {
                    push(&mut rx, &[a], st)?;
                }
            } else {
                let a = c as u8;
                for b in 0..=255u8 {
                    push(&mut rx, &[a, b], st)?;
                    for d in 0..=255u8 {
                        push(&mut rx, &[a, b, d], st)?;
                        st.nontrivial_count += 1;
                    }
                }
                if st.samples.len() < 2 {
                    st.samples.push(json!({"bytes": [a, 0, 0]}));
                }
            }
            deliver_probe(&mut rx, probe_cached(PROBE_TSI), 10).map_err(|m| (json!({"chunk": c}), m))?;
            Ok(())
        },
    );

    // (b) single-byte substitutions in the header region
    let nsessions = std::env::var("VERIF_C04_SESSIONS").ok().and_then(|v| v.parse().ok()).unwrap_or(tier.pick(16, corpus::CORPUS_TOTAL));
    let step = (corpus::CORPUS_TOTAL / nsessions).max(1);
    let mut work: Vec<(usize, usize, usize)> = vec![]; // (session, pkt, header_len)
    for k in 0..nsessions {
        let si = (k * step + k % step.max(1)) % corpus::CORPUS_TOTAL;
        let cs = corpus_cached(si);
        for (pi, (_, p)) in cs.packets.iter().enumerate() {
            work.push((si, pi, header_region(p)));
        }
    }
    let total: u64 = work.iter().map(|w| w.2 as u64 * 255).sum();
    let work_ref = &work;
    eng.chunked(
        PartCfg::new(
            "header-subst",
            format!(
                "every single-byte substitution (255 values) at every offset of the LCT header + extensions + FEC payload id of every packet of {} corpus sessions (5 schemes x in-band/FDT-only x 4 cenc x empty/1-block/3-block x both profiles), pushed in place of the original inside its session, followed by a usability probe; non-trivial = all packets of the mutated session still parse (the mutation reached the session layer); distinct by construction",
                nsessions
            ),
            total,
        )
        .hang_violates()
        .limit_s(120),
        work.len() as u64,
        true,
        |c, st| {
            let (si, pi, hl) = work_ref[c as usize];
            let cs = corpus_cached(si);
            let orig = cs.packets[pi].1.clone();
            for off in 0..hl {
                for val in 0..=255u8 {
                    if val == orig[off] {
                        continue;
                    }
                    let s = Subst { session: si, pkt: pi, off, val };
                    match run_subst(&s) {
                        Ok(info) => {
                            st.evaluations += 1;
                            if info.nontrivial {
                                st.nontrivial_count += 1;
                                if st.samples.len() < 1 {
                                    st.samples.push(json!(s));
                                }
                            }
                        }
                        Err(m) => return Err((json!(s), format!("[{}] {}", cs.label, m))),
                    }
                }
            }
            Ok(())
        },
    );

    // (c) mutation sequences
    eng.generated(
        PartCfg::new(
            "mutations",
            "1-4 mutations of a corpus session: bit flips, byte sets, truncation, extension, splicing, duplication, reordering, field-aware edits through the reference codec (HDR_LEN, flag bits, HET/HEL, every FTI field, instance id, codepoint, SBN/ESI/SBL, B/A flags, EXT_TIME use bits, TOI/TSI, payload length), raw byte strings, foreign FDT instances (hostile attribute values, OTI attributes, malformed XML, 10^4 File elements) with lead and follow-up object packets, staircases (2-320 packets of one hostile object whose block numbers climb by a fixed step) and attribute rewriting inside the session's own FDT instance (lengths, OTI attributes, encoding, MD5, Expires, TOI); non-trivial = at least one packet of the sequence parses; distinct by case",
            tier.pick(300_000, 6_000_000),
        )
        .hang_violates()
        .limit_s(60),
        seq_strategy,
        run_seq_case,
    );
    // (d) the same session again after it failed
    eng.generated(
        PartCfg::new(
            "retry",
            "a corpus session damaged so that its object fails (0-3 object packets lost, close-object flag set on 0-2 object packets; FDT packets and payloads untouched), followed by the intact session on the same TSI; receiver max_objects_error 0 / 1 / 4; the object must be delivered byte-exact by the end and no wrong copy may complete; non-trivial = the object failed in the first pass and had not completed; distinct by case",
            tier.pick(40_000, 800_000),
        )
        .hang_violates()
        .limit_s(60),
        retry_strategy,
        run_retry,
    );
}

pub fn replay(part: &str, case: &Value) -> Option<CaseResult> {
    match part {
        "bytes<=3" => {
            let b: Vec<u8> = serde_json::from_value(case.get("bytes")?.clone()).ok()?;
            Some(run_sequence(&[b], 16 << 10, true).map(|_| CaseInfo::new()))
        }
        "header-subst" => Some(run_subst(&serde_json::from_value(case.clone()).ok()?)),
        "mutations" | "pinned" | "regress" => Some(run_seq_case(&serde_json::from_value(case.clone()).ok()?)),
        "retry" => Some(run_retry(&serde_json::from_value(case.clone()).ok()?)),
        _ => None,
    }
}

// ------------------------------------------------------------------------------------------
// byte-level entry point for coverage-guided fuzzing (fuzz/fuzz_targets/c04_sequence.rs)

struct Bytes<'a> {
    d: &'a [u8],
    i: usize,
}

impl<'a> Bytes<'a> {
    fn u8(&mut self) -> u8 {
        let v = self.d.get(self.i).copied().unwrap_or(0);
        self.i += 1;
        v
    }
    fn u16(&mut self) -> u16 {
        u16::from_be_bytes([self.u8(), self.u8()])
    }
    fn u64(&mut self) -> u64 {
        let mut v = 0u64;
        for _ in 0..8 {
            v = (v << 8) | self.u8() as u64;
        }
        v
    }
    fn take(&mut self, n: usize) -> Vec<u8> {
        let end = (self.i + n).min(self.d.len());
        let v = self.d.get(self.i.min(self.d.len())..end).map(|s| s.to_vec()).unwrap_or_default();
        self.i += n;
        v
    }
    fn left(&self) -> usize {
        self.d.len().saturating_sub(self.i)
    }
}

fn field_edit_from(b: &mut Bytes) -> FieldEdit {
    let tag = b.u8() % 28;
    let v = b.u64();
    match tag {
        0 => FieldEdit::HdrLen(v as i8),
        1 => FieldEdit::XorByte0(v as u8),
        2 => FieldEdit::XorByte1(v as u8),
        3 => FieldEdit::Cp(v as u8),
        4 => FieldEdit::Sbn(v as u32),
        5 => FieldEdit::Esi(v as u32),
        6 => FieldEdit::Sbl(v as u16),
        7 => FieldEdit::TransferLen(v & 0xFFFF_FFFF_FFFF),
        8 => FieldEdit::E(v as u16),
        9 => FieldEdit::B(v as u32),
        10 => FieldEdit::MaxN(v as u32),
        11 => FieldEdit::Z(v as u16),
        12 => FieldEdit::N(v as u16),
        13 => FieldEdit::Al(v as u8),
        14 => FieldEdit::M(v as u8),
        15 => FieldEdit::InstanceId(v as u32),
        16 => FieldEdit::FdtVersion(v as u8),
        17 => FieldEdit::Cenc(v as u8),
        18 => FieldEdit::TimeUse(v as u16),
        19 => FieldEdit::Hel(v as u8, (v >> 8) as u8),
        20 => FieldEdit::Het(v as u8, (v >> 8) as u8),
        21 => FieldEdit::DropExt(v as u8),
        22 => FieldEdit::DupExt(v as u8),
        23 => FieldEdit::CloseObject(v & 1 == 1),
        24 => FieldEdit::CloseSession(v & 1 == 1),
        25 => FieldEdit::Toi(v),
        26 => FieldEdit::Tsi(v),
        _ => FieldEdit::PayloadLen(v as u16),
    }
}

/// decode fuzzer bytes into a mutation sequence over a corpus session
pub fn seq_case_from_bytes(data: &[u8]) -> SeqCase {
    let mut b = Bytes { d: data, i: 0 };
    let session = b.u16() as usize % corpus::CORPUS_TOTAL;
    let cache = [4usize << 10, 16 << 10, 64 << 10, 1 << 20][(b.u8() % 4) as usize];
    let mut muts = vec![];
    while b.left() > 0 && muts.len() < 8 {
        let tag = b.u8() % 14;
        let m = match tag {
            0 => Mut::Flip { p: b.u16(), bit: b.u16() },
            1 => Mut::SetByte { p: b.u16(), off: b.u16(), val: b.u8() },
            2 => Mut::Truncate { p: b.u16(), keep: b.u16() },
            3 => Mut::Extend { p: b.u16(), n: b.u8(), fill: b.u8() },
            4 => Mut::Splice { a: b.u16(), b: b.u16(), at: b.u16() },
            5 => Mut::Dup { p: b.u16(), to: b.u16() },
            6 => Mut::Swap { a: b.u16(), b: b.u16() },
            7 => Mut::Drop { p: b.u16() },
            8 | 9 => Mut::Field { p: b.u16(), edit: field_edit_from(&mut b) },
            10 => {
                let at = b.u16();
                let n = b.u8() as usize;
                Mut::Raw { at, bytes: b.take(n) }
            }
            13 => {
                let name = b.u8();
                let value = match b.u8() % 3 {
                    0 => b.u64().to_string(),
                    1 => (b.u16() as u64).to_string(),
                    _ => String::from_utf8_lossy(&b.take(6)).chars().filter(|c| !c.is_control()).collect(),
                };
                Mut::FdtAttr { name, value }
            }
            12 => Mut::Staircase {
                at: b.u16(),
                scheme: [Scheme::NoCode, Scheme::Rs28, Scheme::Rs28Us][(b.u8() % 3) as usize],
                e: [1u16, 4, 16][(b.u8() % 3) as usize],
                b: 1 + (b.u8() % 2) as u32,
                blocks: 1 << (10 + b.u8() % 14),
                step: b.u16() as u32 % 8192 + 1,
                n: b.u16() % 320,
            },
            _ => {
                // a foreign FDT: attribute values are taken from the input as decimal / raw text
                let at = b.u16();
                let nattr = (b.u8() % 6) as usize;
                let names = ["FEC-OTI-FEC-Encoding-ID", "FEC-OTI-Maximum-Source-Block-Length", "FEC-OTI-Encoding-Symbol-Length", "FEC-OTI-Max-Number-of-Encoding-Symbols", "FEC-OTI-Scheme-Specific-Info", "Content-Length", "Transfer-Length", "Content-Encoding", "Content-MD5"];
                let mut attrs = vec![];
                for _ in 0..nattr {
                    let name = names[(b.u8() as usize) % names.len()];
                    let v = match b.u8() % 4 {
                        0 => b.u64().to_string(),
                        1 => (b.u8() as u64).to_string(),
                        2 => {
                            use base64::Engine as _;
                            base64::engine::general_purpose::STANDARD.encode(b.take(4))
                        }
                        _ => String::from_utf8_lossy(&b.take(6)).chars().filter(|c| !c.is_control()).collect(),
                    };
                    if !attrs.iter().any(|(k, _): &(String, String)| k == name) {
                        attrs.push((name.to_string(), v));
                    }
                }
                let follow_n = (b.u8() % 4) as usize;
                let mut follow = vec![];
                for _ in 0..follow_n {
                    follow.push((0u8, Scheme::ALL[(b.u8() % 6) as usize], b.u8() & 1 == 1, b.u8() as u32, b.u8() as u32, (b.u8() % 64) as u16, b.u8() & 1 == 1));
                }
                Mut::Foreign {
                    at,
                    fdt: HostileFdt {
                        instance_id: b.u16() as u32,
                        expires: "4000000000".into(),
                        inst_attrs: vec![],
                        files: vec![HostileFile { toi: ((b.u8() % 5) + 1).to_string(), location: "file:///f".into(), attrs }],
                        malform: b.u8() % 9,
                        malform_at: b.u16(),
                        many: 0,
                        e: 1024,
                        follow,
                        lead: b.u8() % 4,
                        follow_tl_mult: b.u8() % 60,
                        follow_b: b.u8() % 5,
                    },
                }
            }
        };
        muts.push(m);
    }
    SeqCase { session, muts, cache }
}

pub fn run_bytes(data: &[u8]) -> Result<(), String> {
    let c = seq_case_from_bytes(data);
    run_seq_case(&c).map(|_| ())
}
