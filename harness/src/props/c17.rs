//! C17 Receiver memory is bounded by configuration, not by traffic.

use crate::alloc;
use crate::drive::*;
use crate::engine::*;
use crate::monitor::Faults;
use crate::rfc::fdt::{ForeignFdt, ForeignFile};
use crate::rfc::fti::{self, Fti, PayloadId, Scheme};
use crate::rfc::lct::{self, Ext, LctSpec};
use crate::spec::*;
use proptest::prelude::*;
use serde::{Deserialize, Serialize};
use serde_json::Value;
use std::time::Duration;

fn pkt(tsi: u64, toi: u128, exts: Vec<Ext>, sbn: u32, esi: u32, payload: &[u8], close: bool) -> Vec<u8> {
    let spec = LctSpec { version: 1, psi: 0, res: 0, c: 0, cci: 0, s: 1, o: 1, h: 1, tsi, toi, cp: 0, close_session: false, close_object: close, exts };
    let mut p = lct::build(&spec);
    p.extend_from_slice(&fti::encode_payload_id(Scheme::NoCode, 0, &PayloadId { sbn, esi, sbl: None }));
    p.extend_from_slice(payload);
    p
}

fn nocode_fti(l: u64, e: u16, b: u32) -> Ext {
    let mut f = Fti::blank(Scheme::NoCode);
    f.transfer_length = l;
    f.e = e;
    f.b = b;
    fti::encode(&f)
}

fn fdt_pkt(tsi: u64, instance: u32, xml: &[u8], sbn: u32, esi: u32, e: u16, total: u64) -> Vec<u8> {
    let off = esi as usize * e as usize;
    let end = (off + e as usize).min(xml.len());
    pkt(tsi, 0, vec![lct::ext_fdt(2, instance), nocode_fti(total, e, 64)], sbn, esi, &xml[off..end], false)
}

fn now(i: u64) -> std::time::SystemTime {
    t0() + Duration::from_millis(i)
}

#[derive(Debug, Clone, Serialize, Deserialize)]
pub enum Scenario {
    /// packets without FTI for an object whose FDT is withheld
    Cache { limit: usize, payload: u16, track: usize },
    /// FDT known, first block withheld, later blocks complete
    Blocks { limit: usize, e: u16, b: u32, track: usize },
    /// many objects driven into error
    Errors { track: usize, objects: u16, cleanup_each: bool },
    /// stalled objects, unfinished FDT instances and idle sessions, then timeouts + cleanup
    Cleanup { stalled: u16, fdt_ids: u16, sessions: u16, session_timeout: bool, timeout_ms: u64 },
    /// stalled objects in a session that stays busy: complete FDT instances (listing other objects) and
    /// packets of another object keep arriving more often than the object timeout, cleanup after each
    Busy { stalled: u16, timeout_ms: u64, other_object: bool },
    /// idle sessions (stalled objects, no object timeout) while cleanup() is called periodically, more
    /// often than the session timeout, as an application loop does
    Periodic { sessions: u16, timeout_ms: u64 },
}

const SLACK: isize = 96 << 10;

pub fn run_scenario(s: &Scenario) -> CaseResult {
    let mut info = CaseInfo::new();
    match s {
        Scenario::Cache { limit, payload, track } => {
            let spec = RxSpec { object_max_cache_size: Some(*limit), max_objects_error: *track, cleanup_each_push: true, ..RxSpec::default_once() };
            let base = alloc::reset_peak();
            let mut rx = Rx::new(&spec, Faults::none());
            let body = vec![0x33u8; *payload as usize];
            let plen = pkt(3, 7, vec![], 0, 0, &body, false).len();
            // enough packets to exceed the limit three times
            let n = (3 * *limit / plen + 8) as u32;
            let mut esi = 0u32;
            let mut sbn = 0u32;
            // whole packets taken before the object is first abandoned (push refused, object gone or counted in error)
            let mut accepted = 0usize;
            let mut abandoned_after: Option<usize> = None;
            let mut push_n = |rx: &mut Rx, count: u32| {
                for _ in 0..count {
                    let p = pkt(3, 7, vec![], sbn, esi, &body, false);
                    let ok = rx.push(&p, now(esi as u64));
                    if abandoned_after.is_none() {
                        if !ok || rx.mr.nb_objects() == 0 || rx.mr.nb_objects_error() > 0 {
                            abandoned_after = Some(accepted);
                        } else {
                            accepted += 1;
                        }
                    }
                    esi += 1;
                    if esi == 60000 {
                        esi = 0;
                        sbn += 1;
                    }
                }
            };
            push_n(&mut rx, n);
            let p1 = alloc::peak() - base;
            alloc::reset_peak();
            push_n(&mut rx, 3 * n);
            let p2 = alloc::peak() - base;
            // what caching `limit` bytes of such packets costs: payload + per-packet bookkeeping
            let per_pkt = plen as isize + 400;
            let allowed = (*limit as isize / plen as isize + 2) * per_pkt + SLACK;
            if p1 > allowed || p2 > allowed {
                return Err(format!(
                    "packets buffered for an undecodable object: live heap reached {} bytes after {} packets and {} bytes after {} packets of {} bytes; object_max_cache_size = {} (allowed incl. bookkeeping: {})",
                    p1,
                    n,
                    p2,
                    4 * n,
                    plen,
                    limit,
                    allowed
                ));
            }
            if rx.mr.nb_objects_error() > *track {
                return Err(format!("nb_objects_error() = {} > max_objects_error = {}", rx.mr.nb_objects_error(), track));
            }
            // independent of any heap measurement: the bytes of the packets buffered before the object is given up
            // (whole packets, as they sit in the cache) stay within the limit, up to the packet that crosses it
            match abandoned_after {
                None => {
                    return Err(format!(
                        "packets buffered for an undecodable object: {} packets of {} bytes ({} bytes in all, payload {} bytes each) were pushed and the object was never abandoned; object_max_cache_size = {}",
                        4 * n,
                        plen,
                        4 * n as usize * plen,
                        payload,
                        limit
                    ))
                }
                Some(k) if k * plen > *limit + plen => {
                    return Err(format!(
                        "packets buffered for an undecodable object: {} packets of {} bytes = {} bytes (payload {} bytes each) were buffered before the object was abandoned; object_max_cache_size = {}",
                        k,
                        plen,
                        k * plen,
                        payload,
                        limit
                    ))
                }
                Some(_) => {}
            }
            info.nt(true);
            info.label("cache limit reached");
            info.label_if(*payload == 0, "header-only packets");
            info.label_if(*payload > 0 && (*payload as usize) < plen - *payload as usize, "payload smaller than the header");
            drop(rx);
        }
        Scenario::Blocks { limit, e, b, track } => {
            let spec = RxSpec { object_max_cache_size: Some(*limit), max_objects_error: *track, cleanup_each_push: true, ..RxSpec::default_once() };
            let block_bytes = *e as usize * *b as usize;
            let nblocks = (4 * *limit / block_bytes + 6).min(60000) as u32;
            let total = nblocks as u64 * block_bytes as u64;
            let base = alloc::reset_peak();
            let mon = crate::monitor::Monitor::new(false, Faults::none());
            let mut rx = Rx::with_monitor(&spec, mon.clone());
            // FDT first so that the writer is open
            let fdt = ForeignFdt::new(4_000_000_000).file(ForeignFile::new(7, "file:///blocks").with("Content-Length", total).with("Transfer-Length", total));
            let xml = fdt.to_xml().into_bytes();
            rx.push(&fdt_pkt(3, 1, &xml, 0, 0, 60000, xml.len() as u64), now(0));
            let body = vec![0x44u8; *e as usize];
            let mut t = 1u64;
            let mut push_blocks = |rx: &mut Rx, from: u32, to: u32| {
                for sbn in from..to {
                    for esi in 0..*b {
                        let p = pkt(3, 7, vec![nocode_fti(total, *e, *b)], sbn, esi, &body, false);
                        rx.push(&p, now(t));
                        t += 1;
                    }
                }
            };
            let half = (nblocks / 4).max(3);
            push_blocks(&mut rx, 1, half);
            let p1 = alloc::peak() - base;
            alloc::reset_peak();
            push_blocks(&mut rx, half, nblocks);
            let p2 = alloc::peak() - base;
            if trace_enabled() {
                crate::say!("blocks: nblocks={} p1={} p2={} writers={} biggest={} objects={} errors={}", nblocks, p1, p2, mon.writers().len(), alloc::biggest(), rx.mr.nb_objects(), rx.mr.nb_objects_error());
            }
            // decoded but unwritten blocks may exceed the limit by at most two blocks; the decoder keeps
            // the symbols and the joined block (factor 3) plus per-symbol bookkeeping
            let per_block = 3 * block_bytes as isize + *b as isize * 96 + 256;
            let allowed = (*limit as isize / block_bytes as isize + 3) * per_block + SLACK + 2048 * 64;
            if p1 > allowed || p2 > allowed {
                return Err(format!(
                    "decoded but unwritten blocks (first block withheld): live heap reached {} / {} bytes, object_max_cache_size = {}, block = {} bytes (allowed {})",
                    p1, p2, limit, block_bytes, allowed
                ));
            }
            // once (limit + 2 blocks) worth of blocks is waiting the object must have been abandoned
            let ws = mon.writers();
            let w = ws.iter().find(|w| w.toi == 7);
            let waiting = (nblocks as usize - 1) * block_bytes;
            if waiting > *limit + 3 * block_bytes {
                match w {
                    Some(w) if w.failed() => {}
                    other => {
                        return Err(format!(
                            "{} bytes of complete blocks were waiting behind a missing first block under a limit of {} bytes, but the object was not abandoned (writer: {:?})",
                            waiting,
                            limit,
                            other.map(|w| w.trace())
                        ))
                    }
                }
            }
            if rx.mr.nb_objects_error() > *track {
                return Err(format!("nb_objects_error() = {} > max_objects_error = {}", rx.mr.nb_objects_error(), track));
            }
            info.nt(true);
            info.label("block limit reached");
            drop(rx);
        }
        Scenario::Errors { track, objects, cleanup_each } => {
            let spec = RxSpec { max_objects_error: *track, cleanup_each_push: *cleanup_each, md5_check: true, ..RxSpec::default_once() };
            let mut rx = Rx::new(&spec, Faults::none());
            let body = vec![0x55u8; 16];
            // the FDT announces every object (2 symbols of 16 bytes); odd ones with a Content-MD5 that cannot match
            let mut fdt = ForeignFdt::new(4_000_000_000);
            for i in 0..*objects {
                let mut f = ForeignFile::new(100 + i as u128, &format!("file:///err/{}", i)).with("Content-Length", 32u64).with("Transfer-Length", 32u64);
                if i % 2 == 1 {
                    f = f.with("Content-MD5", "AAAAAAAAAAAAAAAAAAAAAA==");
                }
                fdt = fdt.file(f);
            }
            let xml = fdt.to_xml().into_bytes();
            rx.push(&fdt_pkt(3, 1, &xml, 0, 0, 60000, xml.len() as u64), now(0));
            let mut maxseen = 0;
            let mut failed_writers = 0usize;
            for i in 0..*objects {
                let toi = 100 + i as u128;
                if i % 2 == 0 {
                    // the only packet received carries the close-object flag: the object ends interrupted
                    rx.push(&pkt(3, toi, vec![nocode_fti(32, 16, 4)], 0, 1, &body, true), now(1 + i as u64));
                } else {
                    // both symbols arrive, the digest does not match: the object ends in error
                    rx.push(&pkt(3, toi, vec![nocode_fti(32, 16, 4)], 0, 0, &body, false), now(1 + i as u64));
                    rx.push(&pkt(3, toi, vec![nocode_fti(32, 16, 4)], 0, 1, &body, true), now(1 + i as u64));
                }
                let e = rx.mr.nb_objects_error();
                maxseen = maxseen.max(e);
                if e > *track {
                    return Err(format!("after object {} of {} failed ({}): nb_objects_error() = {} > max_objects_error = {}", i + 1, objects, if i % 2 == 0 { "interrupted by the close-object flag" } else { "MD5 mismatch" }, e, track));
                }
                failed_writers = rx.mon.writers().iter().filter(|w| w.failed()).count();
            }
            // the scenario must really have produced failed objects (otherwise it shows nothing)
            if failed_writers != *objects as usize {
                return Err(format!("HARNESS: the error scenario produced {} failed writers for {} objects", failed_writers, objects));
            }
            info.nt(*objects as usize > *track);
            info.label(format!("failed objects {} vs max_objects_error {}", if *objects as usize > *track { "exceed" } else { "within" }, track));
            info.label(format!("errors seen up to {}", maxseen.min(8)));
            drop(rx);
        }
        Scenario::Cleanup { stalled, fdt_ids, sessions, session_timeout, timeout_ms } => {
            // residual heap after cleanup must not scale with the amount of stalled state: run the
            // scenario at scale 1 and at scale 4 and compare
            let run = |scale: u32| -> Result<(isize, usize, usize), String> {
                let spec = RxSpec {
                    object_timeout_ms: Some(*timeout_ms),
                    session_timeout_ms: if *session_timeout { Some(*timeout_ms) } else { None },
                    cleanup_each_push: false,
                    ..RxSpec::default_once()
                };
                let base = alloc::reset_peak();
                let mut rx = Rx::new(&spec, Faults::none());
                let body = vec![0x66u8; 200];
                let mut t = 0u64;
                for s in 0..(*sessions as u32).max(1) {
                    let tsi = 10 + s as u64;
                    for i in 0..(*stalled as u32 * scale) {
                        // FDT-only objects (cached) and in-band objects missing a symbol
                        let p = if i % 2 == 0 { pkt(tsi, 1000 + i as u128, vec![], 0, 0, &body, false) } else { pkt(tsi, 1000 + i as u128, vec![nocode_fti(400, 200, 4)], 0, 0, &body, false) };
                        rx.push(&p, now(t));
                        t += 1;
                    }
                    let xml = vec![b' '; 600];
                    for i in 0..(*fdt_ids as u32 * scale) {
                        match i % 3 {
                            // first of three symbols of an FDT instance that never completes
                            0 => rx.push(&fdt_pkt(tsi, 1 + i, &xml, 0, 0, 200, 600), now(t)),
                            // an instance that is completely received but is not an FDT (fails to parse)
                            1 => rx.push(&fdt_pkt(tsi, 1 + i, b"<FDT-Instance Expires=\"4000000000\"><File TOI=", 0, 0, 60000, 46), now(t)),
                            // an instance that fails: first of three symbols, carrying the close-object flag
                            _ => {
                                let mut p = fdt_pkt(tsi, 1 + i, &xml, 0, 0, 200, 600);
                                p[1] |= 0x01; // B flag of the LCT header
                                rx.push(&p, now(t))
                            }
                        };
                        t += 1;
                    }
                }
                let objects_before = rx.mr.nb_objects();
                std::thread::sleep(Duration::from_millis(*timeout_ms * 3 + 15));
                rx.mr.cleanup(now(t + 100_000));
                rx.mr.cleanup(now(t + 100_001));
                let left = rx.mr.nb_objects();
                let residual = alloc::live() - base;
                drop(rx);
                Ok((residual, left, objects_before))
            };
            let (r1, left1, before1) = run(1)?;
            let (r4, left4, _) = run(4)?;
            if left1 != 0 || left4 != 0 {
                return Err(format!("after the object timeout ({} ms) elapsed and cleanup() ran, nb_objects() is still {} (scale 1) / {} (scale 4)", timeout_ms, left1, left4));
            }
            // (what is left after cleanup is per session, not per past object or instance: 24 KiB of slack)
            if r4 > r1 + (24 << 10) && r4 > 2 * r1 {
                return Err(format!(
                    "memory held after timeouts + cleanup scales with past traffic: {} bytes after the scenario, {} bytes after 4x the scenario ({} stalled objects, {} unfinished FDT instance ids, {} sessions, session timeout {})",
                    r1, r4, stalled, fdt_ids, sessions, session_timeout
                ));
            }
            info.nt(before1 > 0 || *fdt_ids > 0);
            info.label_if(*fdt_ids > 0, "unfinished FDT instances");
            info.label_if(*session_timeout, "sessions expire");
        }
        Scenario::Busy { stalled, timeout_ms, other_object } => {
            let spec = RxSpec { object_timeout_ms: Some(*timeout_ms), session_timeout_ms: None, cleanup_each_push: false, ..RxSpec::default_once() };
            let mut rx = Rx::new(&spec, Faults::none());
            let body = vec![0x77u8; 100];
            let tsi = 21u64;
            let mut t = 0u64;
            for i in 0..*stalled as u32 {
                // cached (no OTI known) and in-band objects that miss a symbol; no FDT will ever list them
                let p = if i % 2 == 0 { pkt(tsi, 1000 + i as u128, vec![], 0, 0, &body, false) } else { pkt(tsi, 1000 + i as u128, vec![nocode_fti(200, 100, 4)], 0, 0, &body, false) };
                rx.push(&p, now(t));
                t += 1;
            }
            let stalled_at = std::time::Instant::now();
            let before = rx.mr.nb_objects();
            let gap = Duration::from_millis((*timeout_ms / 4).max(1));
            let mut instances = 0u32;
            let mut in_window = 0u32;
            let mut last = std::time::Instant::now();
            let mut esi = 0u32;
            // traffic for 2 x timeout + 30 ms after the last packet of the stalled objects
            while stalled_at.elapsed() < Duration::from_millis(2 * *timeout_ms + 30) {
                std::thread::sleep(gap);
                instances += 1;
                let fdt = ForeignFdt::new(4_000_000_000).file(ForeignFile::new(5000 + instances as u128, &format!("file:///busy/{}", instances)).with("Content-Length", 100u64).with("Transfer-Length", 100u64));
                let xml = fdt.to_xml().into_bytes();
                rx.push(&fdt_pkt(tsi, instances, &xml, 0, 0, 60000, xml.len() as u64), now(t));
                t += 1;
                if *other_object {
                    // an object of 60000 symbols that keeps receiving: it must stay, the stalled ones must go
                    rx.push(&pkt(tsi, 9, vec![nocode_fti(6_000_000, 100, 60000)], 0, esi, &body, false), now(t));
                    esi += 1;
                    t += 1;
                }
                rx.mr.cleanup(now(t));
                if last.elapsed() < Duration::from_millis(*timeout_ms) {
                    in_window += 1;
                }
                last = std::time::Instant::now();
            }
            rx.mr.cleanup(now(t + 1));
            let left = rx.mr.nb_objects();
            let expected = if *other_object { 1 } else { 0 };
            if left > expected {
                return Err(format!(
                    "{} stalled objects received their last packet {} ms ago (object timeout {} ms); the session stayed busy ({} complete FDT instances listing other objects{}, cleanup() after each) and nb_objects() is still {} (expected {})",
                    stalled,
                    stalled_at.elapsed().as_millis(),
                    timeout_ms,
                    instances,
                    if *other_object { " and packets of another object" } else { "" },
                    left,
                    expected
                ));
            }
            info.nt(before > 0 && in_window >= 2);
            info.label("stalled objects in a busy session");
            drop(rx);
        }
        Scenario::Periodic { sessions, timeout_ms } => {
            let spec = RxSpec { object_timeout_ms: None, session_timeout_ms: Some(*timeout_ms), cleanup_each_push: false, ..RxSpec::default_once() };
            let mut rx = Rx::new(&spec, Faults::none());
            let body = vec![0x88u8; 100];
            for s in 0..(*sessions as u64).max(1) {
                // one stalled object per session: a symbol is missing and no FDT ever comes
                rx.push(&pkt(40 + s, 7, vec![nocode_fti(200, 100, 4)], 0, 0, &body, false), now(s));
            }
            let idle_since = std::time::Instant::now();
            let before = rx.mr.nb_objects();
            let gap = Duration::from_millis((*timeout_ms / 4).max(1));
            let mut calls = 0u32;
            let mut in_window = 0u32;
            let mut last = std::time::Instant::now();
            while idle_since.elapsed() < Duration::from_millis(2 * *timeout_ms + 30) {
                std::thread::sleep(gap);
                rx.mr.cleanup(now(1000 + calls as u64));
                calls += 1;
                if last.elapsed() < Duration::from_millis(*timeout_ms) {
                    in_window += 1;
                }
                last = std::time::Instant::now();
            }
            rx.mr.cleanup(now(2000 + calls as u64));
            let left = rx.mr.nb_objects();
            if left > 0 {
                return Err(format!(
                    "{} sessions have been silent for {} ms (session timeout {} ms, no object timeout); cleanup() was called {} times in between (every {} ms) and their {} stalled objects are still held: nb_objects() = {}",
                    sessions,
                    idle_since.elapsed().as_millis(),
                    timeout_ms,
                    calls,
                    gap.as_millis(),
                    before,
                    left
                ));
            }
            info.nt(before > 0 && in_window >= 2);
            info.label("idle sessions under periodic cleanup");
            drop(rx);
        }
    }
    Ok(info)
}

pub fn scenario_strategy() -> BoxedStrategy<Scenario> {
    let limit = prop_oneof![Just(4usize << 10), Just(16 << 10), Just(64 << 10), Just(256 << 10), (4usize << 10)..(300 << 10)];
    prop_oneof![
        3 => (limit.clone(), prop_oneof![2 => Just(64u16), 2 => Just(200), 2 => Just(1400), 2 => 32u16..1400, 1 => Just(0u16), 2 => 0u16..32], 0usize..9).prop_map(|(limit, payload, track)| Scenario::Cache { limit, payload, track }),
        3 => (limit, prop_oneof![Just(16u16), Just(64), Just(256)], 1u32..9, 0usize..9).prop_map(|(limit, e, b, track)| Scenario::Blocks { limit, e, b, track }),
        2 => (0usize..9, 1u16..40, any::<bool>()).prop_map(|(track, objects, cleanup_each)| Scenario::Errors { track, objects, cleanup_each }),
        2 => (0u16..12, 0u16..12, 1u16..4, any::<bool>(), 2u64..8).prop_map(|(stalled, fdt_ids, sessions, session_timeout, timeout_ms)| Scenario::Cleanup { stalled, fdt_ids, sessions, session_timeout, timeout_ms }),
        1 => (1u16..8, 20u64..41, any::<bool>()).prop_map(|(stalled, timeout_ms, other_object)| Scenario::Busy { stalled, timeout_ms, other_object }),
        1 => (1u16..6, 20u64..41).prop_map(|(sessions, timeout_ms)| Scenario::Periodic { sessions, timeout_ms }),
    ]
    .boxed()
}

pub fn run(eng: &mut Engine) {
    eng.assume("memory = live heap bytes of the receiver's thread measured by the harness' counting allocator (peak per phase / residual after cleanup)");
    eng.assume("bounds include the receiver's own bookkeeping per cached packet (+400 bytes) and per decoded block (3x the block: symbols, joined block, write buffer) plus 96 KiB slack; the limit itself is the configured object_max_cache_size");
    eng.assume("flute's idle timeouts use the wall clock (Instant::now): the harness configures 2-8 ms timeouts and sleeps 3x + 15 ms before cleanup (a sleep can only be too long, the safe direction)");
    let tier = eng.tier;
    eng.generated(
        PartCfg::new(
            "scenarios",
            "traffic that keeps objects undecodable: (cache) packets of an FDT-only object whose FDT never comes, N then 3N more packets; (blocks) first block withheld while later blocks complete; (errors) many failing objects vs max_objects_error after every push; (cleanup) stalled objects + FDT instance ids that never complete, fail to parse or are cut short by a close-object flag + idle sessions, residual heap after timeouts+cleanup at scale 1 vs scale 4; (busy) stalled objects in a session that keeps receiving complete FDT instances for other objects (and optionally another object's packets) more often than the 20-40 ms object timeout, cleanup after each, for 2x the timeout + 30 ms; (periodic) idle sessions with a 20-40 ms session timeout while cleanup() is called every quarter of it; limits 4 KiB..300 KiB, timeouts 2-8 ms; non-trivial = the configured limit was reached / stalled state existed; distinct by scenario",
            tier.pick(8000, 120_000),
        )
        .limit_s(120),
        scenario_strategy,
        run_scenario,
    );
}

pub fn replay(part: &str, case: &Value) -> Option<CaseResult> {
    match part {
        "scenarios" | "pinned" => Some(run_scenario(&serde_json::from_value(case.clone()).ok()?)),
        _ => None,
    }
}
