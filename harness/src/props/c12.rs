//! C12 Transfer lifecycle: exact transfer counts, removal semantics, reads terminate.

use super::c08::{check_stream, ObjFacts};
use super::c11::{known_skip, raptor_panic};
use super::common::*;
use crate::drive::*;
use crate::engine::*;
use crate::gen;
use crate::ops::*;
use crate::rfc::fti::Scheme;
use crate::spec::*;
use crate::stream;
use proptest::prelude::*;
use serde_json::Value;
use std::collections::BTreeSet;

/// for every transfer of `toi`: the log index of the packet that made it complete on the wire
/// (every source symbol emitted; for an empty object its lone packet)
fn completion_points(an: &stream::Analysis, log: &[Rec], toi: u128, k: &[u32]) -> Vec<usize> {
    let ts = match an.transfers.get(&toi) {
        Some(t) => t,
        None => return vec![],
    };
    let total: u32 = k.iter().sum();
    let mut out = vec![];
    for t in ts {
        let mut seen: BTreeSet<(u32, u32)> = BTreeSet::new();
        for i in &t.pkts {
            if total == 0 {
                out.push(*i);
                break;
            }
            if let Some((_, d)) = log[*i].pkt() {
                if (d.pid.sbn as usize) < k.len() && d.pid.esi < k[d.pid.sbn as usize] {
                    seen.insert((d.pid.sbn, d.pid.esi));
                    if seen.len() as u32 == total {
                        out.push(*i);
                        break;
                    }
                }
            }
        }
    }
    out.sort();
    out
}

/// number of transfers complete on the wire considering only packets with log index < `upto`
fn wire_complete(points: &[usize], upto: usize) -> usize {
    points.iter().filter(|p| **p < upto).count()
}

pub fn check(c: &OpCase, run: &OpsRun, known: &dyn Fn(&str) -> bool, info: &mut CaseInfo) -> Result<(), String> {
    if let Some((toi, at)) = run.remove_refused.first() {
        return Err(format!("remove_object({}) answered false (log #{}) although the object had been added, not removed, and had not finished its transfers: it stays in the sender", toi, at));
    }
    let log = &run.drv.log;
    // symbol / flag / removal semantics per transfer (shared with C08)
    let facts: Vec<ObjFacts> = run
        .added
        .iter()
        .filter(|a| !(known("raptor-symbols-not-e-slices") && sig_raptor_unaligned(&a.eff, a.transfer_len)) && !(known("raptor-small-block") && sig_raptor_small_block(&a.eff, a.transfer_len)))
        .map(|a| ObjFacts { spec: a.spec.clone(), eff: a.eff.clone(), toi: a.toi, bytes: a.bytes.clone(), transfer_len: a.transfer_len, removed_at: a.removed_idx })
        .collect();
    if facts.len() != run.added.len() {
        return Err("EXCLUDED:raptor".into());
    }
    check_stream(&c.sender, log, None, &facts, known, info)?;
    let an = stream::analyse(log);
    let insts = an.fdt_by_first_idx();
    for (oi, a) in run.added.iter().enumerate() {
        let part = match ref_partition(&a.eff, a.transfer_len) {
            Some(p) => p,
            None => continue,
        };
        let k: Vec<u32> = (0..part.n).map(|s| part.k(s) as u32).collect();
        let mtc = a.spec.max_transfer_count.max(1) as usize;
        let ts = an.transfers.get(&a.toi).cloned().unwrap_or_default();
        let points = completion_points(&an, log, a.toi, &k);
        let total_wire = wire_complete(&points, log.len());
        let carousel = a.spec.carousel.is_some();
        // (a) never more than the configured number of transfers
        if !carousel && total_wire > mtc {
            return Err(format!("toi {}: {} complete transfers on the wire, max_transfer_count = {}", a.toi, total_wire, mtc));
        }
        // state samples
        let mut gone_at: Option<usize> = None;
        for s in &run.samples {
            if s.per.len() <= oi || s.idx < a.add_idx {
                continue;
            }
            let (is_added, nbt, in_fdt) = s.per[oi];
            if is_added != in_fdt {
                return Err(format!("toi {}: is_added() = {} but get_objects_in_fdt() {} it (log #{})", a.toi, is_added, if in_fdt { "lists" } else { "does not list" }, s.idx));
            }
            if is_added != nbt.is_some() {
                return Err(format!("toi {}: is_added() = {} but nb_transfers() = {:?} (log #{})", a.toi, is_added, nbt, s.idx));
            }
            if !is_added && gone_at.is_none() {
                gone_at = Some(s.idx);
            }
            if is_added && gone_at.is_some() {
                return Err(format!("toi {}: listed again at log #{} after it had disappeared at #{}", a.toi, s.idx, gone_at.unwrap()));
            }
            if let Some(n) = nbt {
                let wire = wire_complete(&points, s.idx);
                // a transfer is booked in the read() call after its last packet
                if !((n as usize) <= wire && wire <= n as usize + 1) {
                    return Err(format!("toi {}: nb_transfers() = {} while {} complete transfers have been emitted (log #{})", a.toi, n, wire, s.idx));
                }
                if s.after_none && n as usize != wire {
                    return Err(format!("toi {}: read() returned None, nb_transfers() = {} but {} complete transfers are on the wire (log #{})", a.toi, n, wire, s.idx));
                }
            }
            // a non-carousel object that was not removed disappears exactly when its transfers are done
            if !carousel && a.removed_idx.map(|r| r > s.idx).unwrap_or(true) {
                let wire = wire_complete(&points, s.idx);
                if !is_added && wire < mtc {
                    return Err(format!("toi {}: disappeared from the sender after {} of {} transfers without having been removed (log #{})", a.toi, wire, mtc, s.idx));
                }
                if is_added && s.after_none && wire >= mtc {
                    return Err(format!("toi {}: all {} transfers are complete and read() returned None, but the object is still listed (log #{})", a.toi, mtc, s.idx));
                }
            }
        }
        // (b) later FDT instances do not list an object that is gone.  Instances are emitted in
        // publication order, so when a publication happened after the object disappeared (an explicit
        // publish(), or - ObjectsBeingTransferred - the start of another transfer) the instance emitted
        // last was published after that moment.
        if let Some(g) = gone_at {
            let explicit_after = run.publishes.iter().any(|p| p.ok && p.idx >= g);
            let auto_after = !c.sender.full_fdt && log.iter().enumerate().any(|(i, r)| i > g && matches!(r.kind, RecKind::Start(t) if t != a.toi));
            if explicit_after || auto_after {
                if let Some(f) = insts.iter().filter(|f| f.first_idx > g).last() {
                    if f.lists(a.toi).is_some() {
                        return Err(format!("toi {} was gone at log #{}, a publication happened afterwards, but the FDT instance emitted last (id {}, first packet #{}) still lists it", a.toi, g, f.id, f.first_idx));
                    }
                }
            }
        }
        info.label_if(total_wire >= 2, "transfers>=2");
        info.label_if(carousel, "carousel");
        info.label_if(a.removed_idx.is_some() && ts.iter().any(|t| a.removed_idx.unwrap() > t.start_idx && t.stop_idx.map(|s| a.removed_idx.unwrap() < s).unwrap_or(true)), "removed mid-transfer");
        info.nt(total_wire >= 2 || carousel || a.removed_idx.is_some());
    }
    // (c) termination at a fixed instant: packets returned by one run of consecutive polls at one instant
    let per_obj: usize = run.added.iter().map(|a| (a.transfer_len as usize / a.eff.e.max(1) as usize + 2) * (1 + a.eff.parity as usize + 1) * (a.spec.max_transfer_count as usize + 1)).sum();
    let fdt_pk: usize = insts.iter().map(|f| f.pkts.len()).max().unwrap_or(1) * (run.publishes.len() + run.added.len() * 4 + 4);
    let bound = 2 * (per_obj + fdt_pk) + 1000;
    let mut streak = 0usize;
    let mut last_t = None;
    for p in &run.polls {
        if Some(p.time) != last_t {
            streak = 0;
            last_t = Some(p.time);
        }
        if p.pkt.is_some() {
            streak += 1;
            if streak > bound {
                return Err(format!("read() returned more than {} packets at one fixed instant (pending work justifies at most that many)", bound));
            }
        } else {
            streak = 0;
        }
    }
    // (d) once no object remains only FDT packets are produced
    let mut empty_since: Option<usize> = None;
    for s in &run.samples {
        if s.nb_objects == 0 {
            if empty_since.is_none() {
                empty_since = Some(s.idx);
            }
        } else {
            empty_since = None;
        }
        if let Some(e) = empty_since {
            // packets emitted by the poll that produced this sample
            if s.idx > e {
                for i in e..s.idx {
                    if let Some((_, d)) = log[i].pkt() {
                        // what a removed object may still send (the rest of a first transfer, or one packet
                        // with the close-object flag) is judged by the per-transfer removal rules above
                        let farewell = run.added.iter().any(|a| a.toi == d.lct.toi && a.removed_idx.map(|r| r < i).unwrap_or(false));
                        if d.lct.toi != 0 && !farewell && run.added.iter().all(|a| a.add_idx <= e) {
                            return Err(format!("nb_objects() was 0 at log #{} but packet #{} carries TOI {}", e, i, d.lct.toi));
                        }
                    }
                }
            }
        }
    }
    Ok(())
}

pub fn run_case(c: &OpCase, known: &dyn Fn(&str) -> bool) -> CaseResult {
    if let Some(k) = known_skip(c, known) {
        return Ok(CaseInfo::excluded(k));
    }
    let run = match caught(|| run_ops_probe(c, true)) {
        Ok(r) => r?,
        Err(p) if raptor_panic(c, known, &p) => return Ok(CaseInfo::excluded("raptor-small-block")),
        Err(p) => return Err(format!("sender panicked: {}", p)),
    };
    if trace_enabled() {
        crate::say!("{}", dump(&run.drv.log));
    }
    let mut info = CaseInfo::new();
    match check(c, &run, known, &mut info) {
        Err(e) if e.starts_with("EXCLUDED:") => Ok(CaseInfo::excluded("raptor-small-block")),
        Err(e) => Err(e),
        Ok(()) => Ok(info),
    }
}

pub fn strategy(tier: Tier) -> BoxedStrategy<OpCase> {
    let obj = gen::ObjOpts { max_size: 600, allow_stream: false, rich_meta: false, ..Default::default() };
    (ops_strategy(OpsOpts { max_ops: tier.pick(24, 40), obj, timing: false, removal: true, tail_rounds: 8, tail_step_us: 400_000, max_transfers: 4, ..Default::default() }), proptest::collection::vec(proptest::option::weighted(0.3, prop_oneof![(0u64..300).prop_map(CarouselSpec::DelayMs), (0u64..300).prop_map(CarouselSpec::IntervalMs)]), 16))
        .prop_map(|(mut c, cars)| {
            let mut k = 0;
            for op in c.ops.iter_mut() {
                if let Op::Add(o) = op {
                    o.carousel = cars[k % cars.len()];
                    k += 1;
                }
            }
            c
        })
        .boxed()
}

pub fn run(eng: &mut Engine) {
    eng.assume("a transfer is 'complete on the wire' when every source symbol of the RFC 5052 partition has been emitted inside its StartTransfer..StopTransfer window; nb_transfers() may lag by the one transfer whose StopTransfer is dispatched by the next read()");
    eng.assume("'retransmitted until removed' and 'never' are checked over the finite horizon of the operation sequence plus 8 rounds of drain + 400 ms");
    let tier = eng.tier;
    let known = super::c01::known_fn(eng);
    eng.generated(
        PartCfg::new(
            "lifecycle",
            "operation sequences add / remove(+publish) / publish / read-n / drain / advance over objects with max_transfer_count 1-4, carousel none/delay/interval (0-300 ms), allow-immediate-stop on/off, removal at arbitrary packet indexes; sender state (nb_objects, is_added, nb_transfers, get_objects_in_fdt) sampled after every read(); wire-level transfer counts from the reference decoder; per-transfer symbol, flag and removal rules shared with C08; non-trivial = >=2 transfers, a carousel object or a removal; distinct by case",
            tier.pick(60_000, 1_200_000),
        ),
        move || strategy(tier),
        move |c| run_case(c, &known),
    );
    let known2 = super::c01::known_fn(eng);
    eng.generated(
        PartCfg::new(
            "removal-index",
            "one small object (<= 16 symbols, any scheme, max_transfer_count 1-3, carousel none/delay/interval, allow-immediate-stop unset/false/true, both publish modes) is removed after exactly j packets for EVERY j from 0 to the number of packets the undisturbed session emits (+2), with and without a publication right after; every run is judged by the full lifecycle oracle; non-trivial = the removal fell inside a transfer; distinct by (case, j)",
            tier.pick(1_500, 12_000),
        ),
        removal_strategy,
        move |c| run_removal(c, &known2),
    );
    let _ = Scheme::NoCode;
}

/// base of the removal sweep: a sender and one object
#[derive(Debug, Clone, serde::Serialize, serde::Deserialize)]
pub struct RemovalCase {
    pub sender: SenderSpec,
    pub obj: ObjSpec,
    pub publish_after: bool,
    /// None: every index; Some(j): only this one (set by the shrinker / replay)
    pub only: Option<u16>,
}

fn removal_ops(c: &RemovalCase, j: u16) -> OpCase {
    let mut ops = vec![Op::Add(Box::new(c.obj.clone())), Op::Publish];
    if j > 0 {
        ops.push(Op::Read(j));
    }
    ops.push(Op::Remove(0, c.publish_after));
    for _ in 0..6 {
        ops.push(Op::Drain);
        ops.push(Op::Advance(400_000));
    }
    ops.push(Op::Drain);
    OpCase { sender: c.sender.clone(), ops }
}

pub fn run_removal(c: &RemovalCase, known: &dyn Fn(&str) -> bool) -> CaseResult {
    // how many packets does the undisturbed session emit (first cycle of a carousel)?
    let base = OpCase { sender: c.sender.clone(), ops: vec![Op::Add(Box::new(c.obj.clone())), Op::Publish, Op::Drain] };
    if let Some(k) = known_skip(&base, known) {
        return Ok(CaseInfo::excluded(k));
    }
    let total = match caught(|| run_ops(&base)) {
        Ok(Ok(r)) => r.drv.log.iter().filter(|r| r.pkt().is_some()).count(),
        Ok(Err(e)) => return Err(e),
        Err(p) if raptor_panic(&base, known, &p) => return Ok(CaseInfo::excluded("raptor-small-block")),
        Err(p) => return Err(format!("sender panicked: {}", p)),
    };
    if total > 120 {
        return Ok(CaseInfo::excluded("domain: session too long for the removal sweep"));
    }
    let mut info = CaseInfo::new();
    let js: Vec<u16> = match c.only {
        Some(j) => vec![j],
        None => (0..=(total as u16 + 2)).collect(),
    };
    let mut inside = 0;
    for j in js {
        let oc = removal_ops(c, j);
        match run_case(&oc, known) {
            Ok(i) => {
                if i.labels.iter().any(|l| l.contains("removed mid-transfer") || l.contains("transfer cut by removal")) {
                    inside += 1;
                }
                if i.excluded.is_some() {
                    return Ok(i);
                }
            }
            Err(e) => return Err(format!("removal after exactly {} packets (of {} in the undisturbed session){}: {}", j, total, if c.publish_after { ", publish right after" } else { "" }, e)),
        }
    }
    info.nt(inside > 0);
    info.label(format!("indices swept: {}", if total < 10 { "<10" } else if total < 40 { "10-39" } else { "40-120" }));
    info.label_if(inside > 0, "some removal fell inside a transfer");
    info.label_if(c.obj.carousel.is_some(), "carousel");
    info.label_if(c.obj.max_transfer_count > 1, "transfers>=2");
    Ok(info)
}

fn removal_strategy() -> BoxedStrategy<RemovalCase> {
    let obj = gen::ObjOpts { max_size: 400, allow_stream: false, rich_meta: false, max_transfers: 3, ..Default::default() };
    (
        gen::session_strategy(gen::SenderOpts { max_queues: 1, ..Default::default() }, obj, 1),
        proptest::option::weighted(0.4, prop_oneof![(0u64..300).prop_map(CarouselSpec::DelayMs), (0u64..300).prop_map(CarouselSpec::IntervalMs)]),
        prop_oneof![Just(None), Just(Some(false)), Just(Some(true))],
        any::<bool>(),
    )
        .prop_map(|((sender, mut objs), carousel, stop, publish_after)| {
            let mut obj = objs.remove(0);
            obj.carousel = carousel;
            obj.immediate_stop = stop;
            RemovalCase { sender, obj, publish_after, only: None }
        })
        .boxed()
}

pub fn replay(part: &str, case: &Value) -> Option<CaseResult> {
    match part {
        "lifecycle" | "pinned" => Some(run_case(&serde_json::from_value(case.clone()).ok()?, &|_| false)),
        "removal-index" => Some(run_removal(&serde_json::from_value(case.clone()).ok()?, &|_| false)),
        _ => None,
    }
}
