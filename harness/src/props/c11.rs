//! C11 Announce before send: no object packet precedes a complete FDT listing it.

use super::common::*;
use crate::drive::*;
use crate::engine::*;
use crate::gen;
use crate::ops::*;
use crate::rfc::fti::Scheme;
use crate::stream;
use serde_json::Value;

pub fn known_skip(c: &OpCase, known: &dyn Fn(&str) -> bool) -> Option<&'static str> {
    if !c.sender.oti.is_constructible() {
        return Some("domain: OTI not constructible");
    }
    let mut objs = vec![];
    for op in &c.ops {
        if let Op::Add(o) = op {
            if !o.oti.as_ref().map(|x| x.is_constructible()).unwrap_or(true) {
                return Some("domain: OTI not constructible");
            }
            objs.push((**o).clone());
        }
    }
    if !session_can_carry_fdt(&c.sender, &objs) {
        return Some("domain: FDT does not fit the session OTI");
    }
    // The FDT instance is itself an object under the session OTI. With a Raptor session default
    // the two open Raptor findings (blocks of 2-3 symbols are silently dropped, symbols are not
    // E-byte slices) make the instance unreadable for the reference receiver: not analysable.
    if c.sender.oti.scheme == Scheme::Raptor && (known("raptor-small-block") || known("raptor-symbols-not-e-slices")) {
        return Some("raptor-small-block");
    }
    None
}

/// the open Raptor finding shows as a panic in BlockEncoder::read (debug assertion) when the block
/// that cannot be encoded is the first one; it is attributed to the finding only when Raptor is
/// involved in the case at all
pub fn raptor_panic(c: &OpCase, known: &dyn Fn(&str) -> bool, p: &str) -> bool {
    known("raptor-small-block")
        && p.contains("blockencoder.rs")
        && (c.sender.oti.scheme == Scheme::Raptor || c.ops.iter().any(|op| matches!(op, Op::Add(o) if o.oti.as_ref().map(|x| x.scheme == Scheme::Raptor).unwrap_or(false))))
}

pub fn check(c: &OpCase, run: &OpsRun, info: &mut CaseInfo) -> Result<(), String> {
    let log = &run.drv.log;
    let an = stream::analyse(log);
    if let Some(e) = an.errors.first() {
        return Err(format!("stream not decodable per RFC: {}", e));
    }
    for inst in &an.fdts {
        if let Some(e) = inst.errors.first() {
            return Err(format!("FDT instance {}: {}", inst.id, e));
        }
    }
    // instances in emission order
    let insts = an.fdt_by_first_idx();
    for (idx, r) in log.iter().enumerate() {
        let (_, d) = match r.pkt() {
            Some(x) => x,
            None => continue,
        };
        if d.lct.toi == 0 {
            continue;
        }
        let toi = d.lct.toi;
        // (1) some completely emitted instance lists the object
        let announced = insts.iter().any(|f| f.complete_idx.map(|c| c < idx).unwrap_or(false) && f.lists(toi).is_some());
        if !announced {
            let seen: Vec<String> = insts.iter().filter(|f| f.first_idx < idx).map(|f| format!("id {} complete_at={:?} lists {:?}", f.id, f.complete_idx, f.doc.as_ref().map(|d| d.files.iter().map(|x| x.toi).collect::<Vec<_>>()))).collect();
            return Err(format!(
                "packet #{} of TOI {} (SBN {}, ESI {}) was emitted before any completely emitted FDT instance lists that object; instances so far: {:?}",
                idx, toi, d.pid.sbn, d.pid.esi, seen
            ));
        }
        // (2) not inside the first emission of an instance (a pending instance is sent in full first)
        if let Some(f) = insts.iter().find(|f| f.first_idx < idx && f.complete_idx.map(|c| c > idx).unwrap_or(true)) {
            return Err(format!(
                "packet #{} of TOI {} was emitted while FDT instance {} was pending (first packet #{}, complete at {:?})",
                idx, toi, f.id, f.first_idx, f.complete_idx
            ));
        }
    }
    // (3) after an explicit publish() no object packet before a NEW instance is complete
    for p in run.publishes.iter().filter(|p| p.ok) {
        let next_new = insts.iter().filter(|f| f.first_idx > p.idx).map(|f| (f.first_idx, f.complete_idx)).min();
        let limit = match next_new {
            Some((_, Some(c))) => c,
            Some((_, None)) => log.len(),
            None => log.len(),
        };
        for idx in p.idx..limit.min(log.len()) {
            if let Some((_, d)) = log[idx].pkt() {
                if d.lct.toi != 0 {
                    return Err(format!(
                        "publish() at log position {} made a new FDT instance pending, but packet #{} of TOI {} was emitted before that instance was completely sent (new instance: {:?})",
                        p.idx, idx, d.lct.toi, next_new
                    ));
                }
            }
        }
    }
    // (3b) ObjectsBeingTransferred: every transfer start publishes a new instance (automatically, inside
    // read()); once that instance shows up, no object packet may lie between the start and its completion
    let mut auto_pending = false;
    if !c.sender.full_fdt {
        for (i, r) in log.iter().enumerate() {
            if !matches!(r.kind, RecKind::Start(_)) {
                continue;
            }
            let next_new = insts.iter().filter(|f| f.first_idx > i).map(|f| (f.first_idx, f.complete_idx, f.id)).min();
            if let Some((first, complete, id)) = next_new {
                let limit = complete.unwrap_or(log.len());
                for idx in i..limit.min(log.len()) {
                    if let Some((_, d)) = log[idx].pkt() {
                        if d.lct.toi != 0 {
                            return Err(format!(
                                "the transfer start at log position {} published FDT instance {} (first packet #{}, complete at {:?}), but packet #{} of TOI {} was emitted before that instance was completely sent",
                                i, id, first, complete, idx, d.lct.toi
                            ));
                        }
                    }
                }
                auto_pending |= log[..i].iter().any(|r| r.pkt().map(|(_, d)| d.lct.toi != 0).unwrap_or(false));
            }
        }
    }
    // (4) FullFDT: an object added after the last publication emits nothing (implied by 1) - label only
    let late_add = run.added.iter().any(|a| a.add_idx > run.polls.first().map(|p| p.idx).unwrap_or(usize::MAX));
    let two_pending = run.publishes.windows(2).any(|w| !log[w[0].idx..w[1].idx].iter().any(|r| r.pkt().is_some()) || insts.iter().any(|f| f.first_idx > w[0].idx && f.complete_idx.map(|c| c > w[1].idx).unwrap_or(true) && f.first_idx < w[1].idx));
    info.nt(late_add || two_pending || auto_pending);
    info.label_if(auto_pending, "automatic publication while another object was in flight");
    info.label_if(late_add, "object added after the first read");
    info.label_if(two_pending, "two instances pending at once");
    info.label(if c.sender.full_fdt { "FullFDT" } else { "ObjectsBeingTransferred" });
    info.label(format!("queues={}", c.sender.queues.len()));
    Ok(())
}

pub fn run_case(c: &OpCase, known: &dyn Fn(&str) -> bool) -> CaseResult {
    if let Some(k) = known_skip(c, known) {
        return Ok(CaseInfo::excluded(k));
    }
    let run = match caught(|| run_ops(c)) {
        Ok(r) => r?,
        Err(p) if raptor_panic(c, known, &p) => return Ok(CaseInfo::excluded("raptor-small-block")),
        Err(p) => return Err(format!("sender panicked: {}", p)),
    };
    if trace_enabled() {
        crate::say!("{}", dump(&run.drv.log));
    }
    let mut info = CaseInfo::new();
    check(c, &run, &mut info)?;
    Ok(info)
}

pub fn strategy(tier: Tier) -> proptest::strategy::BoxedStrategy<OpCase> {
    // tiny session symbols often: an FDT instance then spans many packets and publishes can land
    // while it is in transmission
    let sender = gen::SenderOpts { min_default_e: 16, ..Default::default() };
    ops_strategy(OpsOpts { max_ops: tier.pick(30, 50), sender, timing: true, ..Default::default() })
}

pub fn run(eng: &mut Engine) {
    eng.assume("an FDT instance counts as completely emitted at the packet that delivers its last missing source symbol (reassembled by the reference receiver, so its own FTI/CENC/instance id signalling is exercised)");
    let tier = eng.tier;
    let known = super::c01::known_fn(eng);
    eng.generated(
        PartCfg::new(
            "ops",
            "operation sequences add / remove / publish / read-n / drain / advance / trigger over 1-3 priority queues with multiplexing, both publish modes, objects with start times, carousel and pacing, tiny session symbols so that instances span many packets; per packet: its TOI is listed by an instance completely emitted before it, no object packet inside the first emission of an instance, none between an explicit publish() and the completion of the new instance; non-trivial = an object was added after the first read or two instances were pending at once; distinct by case",
            tier.pick(80_000, 1_500_000),
        ),
        move || strategy(tier),
        move |c| run_case(c, &known),
    );
}

pub fn replay(part: &str, case: &Value) -> Option<CaseResult> {
    match part {
        "ops" | "pinned" => Some(run_case(&serde_json::from_value(case.clone()).ok()?, &|_| false)),
        _ => None,
    }
}
