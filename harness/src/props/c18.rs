//! C18 Multi-session demultiplexing, TSI filtering and session listener events.

use crate::corpus;
use crate::drive::*;
use crate::engine::*;
use crate::monitor::{Faults, Monitor, WriterLog};
use crate::rfc::fdt::ForeignFdt;
use crate::rfc::fti::{self, Fti, PayloadId, Scheme};
use crate::rfc::lct::{self, LctSpec};
use crate::spec::*;
use flute::core::UDPEndpoint;
use flute::receiver::{MultiReceiver, MultiReceiverListener, ReceiverEndpoint};
use proptest::prelude::*;
use serde::{Deserialize, Serialize};
use serde_json::{json, Value};
use std::cell::RefCell;
use std::collections::BTreeMap;
use std::rc::Rc;
use std::time::Duration;

/// four endpoints: two groups x {without, with} source address
pub fn endpoint(i: usize) -> UDPEndpoint {
    match i % 4 {
        0 => UDPEndpoint::new(None, "224.0.0.1".into(), 3400),
        1 => UDPEndpoint::new(Some("10.0.0.1".into()), "224.0.0.1".into(), 3400),
        2 => UDPEndpoint::new(None, "224.0.0.2".into(), 3400),
        _ => UDPEndpoint::new(Some("10.0.0.1".into()), "224.0.0.2".into(), 3400),
    }
}

/// endpoint index with the source address wildcarded
fn no_source(i: usize) -> usize {
    i & !1
}

// ------------------------------------------------------------------------------------------
// (a) demultiplexing: interleaved sessions vs solo runs

#[derive(Debug, Clone, Serialize, Deserialize)]
pub struct DemuxCase {
    /// (corpus session, tsi, endpoint)
    pub sessions: Vec<(usize, u64, usize)>,
    /// merge schedule: which session delivers its next packet
    pub merge: Vec<u8>,
}

fn trace_of(ws: &[WriterLog], ep: &UDPEndpoint, tsi: u64) -> Vec<String> {
    ws.iter()
        .filter(|w| w.endpoint == *ep && w.tsi == tsi)
        .map(|w| format!("toi={} {} md5={:?} loc={} len={:?} bytes={}", w.toi, w.trace(), w.meta.md5, w.meta.content_location, w.meta.content_length, crate::engine::fnv(&w.data)))
        .collect()
}

pub fn run_demux(c: &DemuxCase) -> CaseResult {
    let mut info = CaseInfo::new();
    // distinct (endpoint, tsi) keys
    let mut keys = std::collections::BTreeSet::new();
    for (_, tsi, ep) in &c.sessions {
        if !keys.insert((*ep % 4, *tsi)) {
            return Ok(CaseInfo::excluded("domain: two sessions with the same (endpoint, TSI)"));
        }
    }
    let sess: Vec<corpus::CorpusSession> = c.sessions.iter().map(|(i, tsi, _)| corpus::build(*i, *tsi)).collect::<Result<_, _>>()?;
    // solo runs
    let mut solo: Vec<Vec<String>> = vec![];
    for (k, s) in sess.iter().enumerate() {
        let ep = endpoint(c.sessions[k].2);
        let mut rx = Rx::new(&RxSpec::default_once(), Faults::none());
        for (t, p) in &s.packets {
            rx.push_ep(&ep, p, *t);
        }
        let ws = rx.mon.writers();
        drop(rx);
        solo.push(trace_of(&ws, &ep, s.sender.tsi));
    }
    // merged run
    let mut rx = Rx::new(&RxSpec::default_once(), Faults::none());
    let mut next = vec![0usize; sess.len()];
    let mut mi = 0usize;
    let mut switches = 0;
    let mut last = usize::MAX;
    loop {
        let remaining: Vec<usize> = (0..sess.len()).filter(|k| next[*k] < sess[*k].packets.len()).collect();
        if remaining.is_empty() {
            break;
        }
        let pick = remaining[(c.merge.get(mi).copied().unwrap_or(0) as usize) % remaining.len()];
        mi += 1;
        if pick != last && last != usize::MAX {
            switches += 1;
        }
        last = pick;
        let (t, p) = &sess[pick].packets[next[pick]];
        next[pick] += 1;
        rx.push_ep(&endpoint(c.sessions[pick].2), p, *t);
    }
    let ws = rx.mon.writers();
    let perr = rx.mon.protocol_errors();
    drop(rx);
    if let Some(e) = perr.first() {
        return Err(format!("object-writer protocol: {}", e));
    }
    for w in &ws {
        if !c.sessions.iter().enumerate().any(|(k, (_, _, ep))| endpoint(*ep) == w.endpoint && sess[k].sender.tsi == w.tsi) {
            return Err(format!("a writer carries endpoint {:?} / TSI {} which is not one of the sessions", w.endpoint, w.tsi));
        }
    }
    for (k, s) in sess.iter().enumerate() {
        let ep = endpoint(c.sessions[k].2);
        let merged = trace_of(&ws, &ep, s.sender.tsi);
        if merged != solo[k] {
            return Err(format!(
                "session {} ({}, TSI {}, endpoint {:?}) delivers differently when interleaved with {} other session(s): solo {:?} vs interleaved {:?}",
                k,
                s.label,
                s.sender.tsi,
                ep,
                sess.len() - 1,
                solo[k],
                merged
            ));
        }
        // and it delivers its object at all
        let (toi, bytes) = &s.expected[0];
        if !ws.iter().any(|w| w.endpoint == ep && w.tsi == s.sender.tsi && w.toi == *toi && w.completed() && w.data == *bytes) {
            return Err(format!("session {} ({}) did not deliver its object in the interleaved run", k, s.label));
        }
    }
    info.nt(switches >= 2);
    info.label(format!("sessions={}", sess.len()));
    let same_tsi = c.sessions.iter().any(|a| c.sessions.iter().any(|b| a.1 == b.1 && a.2 % 4 != b.2 % 4));
    info.label_if(same_tsi, "equal TSI on distinct endpoints");
    Ok(info)
}

pub fn demux_strategy() -> BoxedStrategy<DemuxCase> {
    (proptest::collection::vec((0usize..corpus::CORPUS_TOTAL, prop_oneof![Just(1u64), Just(2), Just(7), Just(0xFFFF_FFFF_FFFF)], 0usize..4), 2..5), proptest::collection::vec(any::<u8>(), 0..200))
        .prop_map(|(sessions, merge)| DemuxCase { sessions, merge })
        .boxed()
}

// ------------------------------------------------------------------------------------------
// (b) TSI filter: exhaustive operation sequences against a reference-count model

pub const TSIS: [u64; 2] = [5, 6];

#[derive(Debug, Clone, Copy, PartialEq, Eq, Serialize, Deserialize)]
pub enum FOp {
    Add(usize, usize),
    Remove(usize, usize),
    AddAll(usize),
    RemoveAll(usize),
}

pub fn fop(i: u64) -> FOp {
    // 0..16: add/remove x 4 endpoints x 2 tsis ; 16..24 add_all/remove_all x 4 endpoints
    if i < 16 {
        let ep = (i % 4) as usize;
        let t = ((i / 4) % 2) as usize;
        if i < 8 {
            FOp::Add(ep, t)
        } else {
            FOp::Remove(ep, t)
        }
    } else {
        let ep = ((i - 16) % 4) as usize;
        if i < 20 {
            FOp::AddAll(ep)
        } else {
            FOp::RemoveAll(ep)
        }
    }
}

#[derive(Debug, Clone, Serialize, Deserialize)]
pub struct FilterCase {
    pub ops: Vec<FOp>,
    /// disable filtering before probing
    pub disable: bool,
}

fn probe_packet(tsi: u64, instance: u32) -> Vec<u8> {
    let xml = ForeignFdt::new(4_000_000_000).to_xml().into_bytes();
    let mut f = Fti::blank(Scheme::NoCode);
    f.transfer_length = xml.len() as u64;
    f.e = 60000;
    f.b = 4;
    let spec = LctSpec { version: 1, psi: 0, res: 0, c: 0, cci: 0, s: 0, o: 0, h: 1, tsi, toi: 0, cp: 0, close_session: false, close_object: false, exts: vec![lct::ext_fdt(2, instance), fti::encode(&f)] };
    let mut p = lct::build(&spec);
    p.extend_from_slice(&fti::encode_payload_id(Scheme::NoCode, 0, &PayloadId { sbn: 0, esi: 0, sbl: None }));
    p.extend_from_slice(&xml);
    p
}

pub fn run_filter(c: &FilterCase) -> CaseResult {
    let mon = Monitor::new(false, Faults::none());
    let mut mr = MultiReceiver::new(mon.clone(), Some(RxSpec::default_once().config()), true);
    // model: reference counts
    let mut cnt: BTreeMap<(usize, usize), u32> = BTreeMap::new();
    let mut bypass: BTreeMap<usize, u32> = BTreeMap::new();
    let mut instance = 1u32;
    let mut went_to_zero = false;
    let mut wildcard_hit = false;
    let mut probe_all = |mr: &mut MultiReceiver, cnt: &BTreeMap<(usize, usize), u32>, bypass: &BTreeMap<usize, u32>, filtering: bool, after: &str, wildcard_hit: &mut bool| -> Result<(), String> {
        for ep in 0..4usize {
            for (ti, tsi) in TSIS.iter().enumerate() {
                let before = mon.fdts().len();
                let p = probe_packet(*tsi, instance);
                instance += 1;
                let r = mr.push(&endpoint(ep), &p, t0());
                if r.is_err() {
                    return Err(format!("probe packet rejected with an error after {}", after));
                }
                let fd = mon.fdts();
                let processed = fd.len() > before;
                if processed {
                    let f = fd.last().unwrap();
                    if f.endpoint != endpoint(ep) || f.tsi != *tsi {
                        return Err(format!("probe for endpoint {:?} / TSI {} was delivered as endpoint {:?} / TSI {}", endpoint(ep), tsi, f.endpoint, f.tsi));
                    }
                }
                let exact = cnt.get(&(ep, ti)).copied().unwrap_or(0) > 0;
                let wild = cnt.get(&(no_source(ep), ti)).copied().unwrap_or(0) > 0;
                let all = bypass.get(&ep).copied().unwrap_or(0) > 0;
                let expect = !filtering || exact || wild || all;
                if wild && !exact && !all && ep != no_source(ep) {
                    *wildcard_hit = true;
                }
                if processed != expect {
                    return Err(format!(
                        "after {}: packet for endpoint {:?} / TSI {} was {} but the filter state (added-removed: exact {}, source-wildcard {}, all-TSI {}; filtering {}) says it must be {}",
                        after,
                        endpoint(ep),
                        tsi,
                        if processed { "processed" } else { "dropped" },
                        cnt.get(&(ep, ti)).copied().unwrap_or(0),
                        cnt.get(&(no_source(ep), ti)).copied().unwrap_or(0),
                        bypass.get(&ep).copied().unwrap_or(0),
                        filtering,
                        if expect { "processed" } else { "dropped" }
                    ));
                }
            }
        }
        Ok(())
    };
    let mut done = String::from("[]");
    for (n, op) in c.ops.iter().enumerate() {
        match op {
            FOp::Add(ep, t) => {
                mr.add_listen_tsi(endpoint(*ep), TSIS[*t]);
                *cnt.entry((*ep, *t)).or_insert(0) += 1;
            }
            FOp::Remove(ep, t) => {
                mr.remove_listen_tsi(&endpoint(*ep), TSIS[*t]);
                let e = cnt.entry((*ep, *t)).or_insert(0);
                if *e == 1 {
                    went_to_zero = true;
                }
                *e = e.saturating_sub(1);
            }
            FOp::AddAll(ep) => {
                mr.add_listen_all_tsi(endpoint(*ep));
                *bypass.entry(*ep).or_insert(0) += 1;
            }
            FOp::RemoveAll(ep) => {
                mr.remove_listen_all_tsi(&endpoint(*ep));
                let e = bypass.entry(*ep).or_insert(0);
                if *e == 1 {
                    went_to_zero = true;
                }
                *e = e.saturating_sub(1);
            }
        }
        done = format!("{:?}", &c.ops[..=n]);
        probe_all(&mut mr, &cnt, &bypass, true, &done, &mut wildcard_hit)?;
    }
    if c.disable {
        mr.set_tsi_filtering(false);
        probe_all(&mut mr, &cnt, &bypass, false, &format!("{} + set_tsi_filtering(false)", done), &mut wildcard_hit)?;
        mr.set_tsi_filtering(true);
        probe_all(&mut mr, &cnt, &bypass, true, &format!("{} + filtering off and on again", done), &mut wildcard_hit)?;
    }
    drop(mr);
    let mut info = CaseInfo::new();
    info.nt(went_to_zero || wildcard_hit);
    Ok(info)
}

// ------------------------------------------------------------------------------------------
// (c) listener events

#[derive(Debug, Clone, Serialize, Deserialize)]
pub enum LOp {
    /// push the next `n` packets of session `s`
    Push(u8, u8),
    /// push the close-session packet of session `s`
    Close(u8),
    /// sleep past the session timeout and call cleanup
    Expire,
    Cleanup,
    /// stay silent for three session timeouts while cleanup() is called every millisecond, as an
    /// application loop does
    ExpirePolled,
    /// the same silence with cleanup() called back to back (no sleep in between): thousands of calls
    /// around the instant at which the timeout elapses
    ExpireSpin,
}

#[derive(Debug, Clone, Serialize, Deserialize)]
pub struct ListenCase {
    pub sessions: Vec<(usize, u64, usize)>,
    pub ops: Vec<LOp>,
    pub session_timeout: bool,
}

struct Listener {
    log: Rc<RefCell<Vec<(bool, ReceiverEndpoint)>>>,
}

impl MultiReceiverListener for Listener {
    fn on_session_open(&self, endpoint: &ReceiverEndpoint) {
        let _p = crate::alloc::pause();
        self.log.borrow_mut().push((true, endpoint.clone()));
    }
    fn on_session_closed(&self, endpoint: &ReceiverEndpoint) {
        let _p = crate::alloc::pause();
        self.log.borrow_mut().push((false, endpoint.clone()));
    }
}

pub fn run_listen(c: &ListenCase) -> CaseResult {
    let mut keys = std::collections::BTreeSet::new();
    for (_, tsi, ep) in &c.sessions {
        if !keys.insert((*ep % 4, *tsi)) {
            return Ok(CaseInfo::excluded("domain: two sessions with the same (endpoint, TSI)"));
        }
    }
    let sess: Vec<corpus::CorpusSession> = c.sessions.iter().map(|(i, tsi, _)| corpus::build(*i, *tsi)).collect::<Result<_, _>>()?;
    let timeout_ms = 4u64;
    let spec = RxSpec { session_timeout_ms: if c.session_timeout { Some(timeout_ms) } else { None }, cleanup_each_push: false, ..RxSpec::default_once() };
    let mon = Monitor::new(true, Faults::none());
    let mut mr = MultiReceiver::new(mon.clone(), Some(spec.config()), false);
    let log = Rc::new(RefCell::new(vec![]));
    let log2 = Rc::new(RefCell::new(vec![]));
    if c.ops.len() % 2 == 0 {
        mr.add_listener(Listener { log: log.clone() });
        // a second listener registered alongside must see exactly the same events
        mr.add_listener(Listener { log: log2.clone() });
    } else {
        // listeners come and go before the traffic starts: add X, add A, remove X, add B - A and B stay
        let gone = Rc::new(RefCell::new(vec![]));
        let x = mr.add_listener(Listener { log: gone.clone() });
        mr.add_listener(Listener { log: log.clone() });
        mr.remove_listener(x);
        mr.add_listener(Listener { log: log2.clone() });
    }
    // model: which keys have a live session, expected event list
    let mut live: BTreeMap<usize, bool> = BTreeMap::new();
    let mut expected: Vec<(bool, usize)> = vec![];
    let mut next = vec![0usize; sess.len()];
    let mut reopened = false;
    let mut closed_once = vec![false; sess.len()];
    let mut t = 0u64;
    for op in &c.ops {
        match op {
            LOp::Push(s, n) => {
                let k = *s as usize % sess.len();
                for _ in 0..(*n).max(1) {
                    let i = next[k] % sess[k].packets.len();
                    next[k] += 1;
                    let p = &sess[k].packets[i].1;
                    let _ = mr.push(&endpoint(c.sessions[k].2), p, t0() + Duration::from_millis(t));
                    t += 1;
                    if !live.get(&k).copied().unwrap_or(false) {
                        live.insert(k, true);
                        expected.push((true, k));
                        if closed_once[k] {
                            reopened = true;
                        }
                    }
                }
            }
            LOp::Close(s) => {
                let k = *s as usize % sess.len();
                let mut sender = sess[k].sender.build()?;
                let p = sender.read_close_session(t0());
                let _ = mr.push(&endpoint(c.sessions[k].2), &p, t0() + Duration::from_millis(t));
                t += 1;
                if live.get(&k).copied().unwrap_or(false) {
                    live.insert(k, false);
                    expected.push((false, k));
                    closed_once[k] = true;
                }
            }
            LOp::Expire => {
                if c.session_timeout {
                    std::thread::sleep(Duration::from_millis(timeout_ms * 3 + 10));
                    mr.cleanup(t0() + Duration::from_millis(t));
                    // every live session expires; the order among them is unspecified
                    let ks: Vec<usize> = live.iter().filter(|(_, v)| **v).map(|(k, _)| *k).collect();
                    for k in ks {
                        live.insert(k, false);
                        expected.push((false, k));
                        closed_once[k] = true;
                    }
                } else {
                    mr.cleanup(t0() + Duration::from_millis(t));
                }
            }
            LOp::ExpirePolled => {
                if c.session_timeout {
                    let until = std::time::Instant::now() + Duration::from_millis(timeout_ms * 3 + 10);
                    while std::time::Instant::now() < until {
                        std::thread::sleep(Duration::from_millis(1));
                        mr.cleanup(t0() + Duration::from_millis(t));
                        t += 1;
                    }
                    mr.cleanup(t0() + Duration::from_millis(t));
                    t += 1;
                    let ks: Vec<usize> = live.iter().filter(|(_, v)| **v).map(|(k, _)| *k).collect();
                    for k in ks {
                        live.insert(k, false);
                        expected.push((false, k));
                        closed_once[k] = true;
                    }
                } else {
                    mr.cleanup(t0() + Duration::from_millis(t));
                }
            }
            LOp::ExpireSpin => {
                if c.session_timeout {
                    let until = std::time::Instant::now() + Duration::from_millis(timeout_ms * 2 + 4);
                    while std::time::Instant::now() < until {
                        mr.cleanup(t0() + Duration::from_millis(t));
                    }
                    // (a thread that was descheduled for the whole window has not called cleanup at all)
                    mr.cleanup(t0() + Duration::from_millis(t));
                    t += 1;
                    let ks: Vec<usize> = live.iter().filter(|(_, v)| **v).map(|(k, _)| *k).collect();
                    for k in ks {
                        live.insert(k, false);
                        expected.push((false, k));
                        closed_once[k] = true;
                    }
                } else {
                    mr.cleanup(t0() + Duration::from_millis(t));
                }
            }
            LOp::Cleanup => {
                // cleanup without waiting: with a timeout configured a session may or may not have
                // expired (wall clock); only used when no timeout is configured
                if !c.session_timeout {
                    mr.cleanup(t0() + Duration::from_millis(t));
                }
            }
        }
    }
    drop(mr);
    let ks: Vec<usize> = live.iter().filter(|(_, v)| **v).map(|(k, _)| *k).collect();
    for k in ks {
        expected.push((false, k));
    }
    // both listeners: same multiset of events per key, in the same per-key order
    {
        let (a, b) = (log.borrow(), log2.borrow());
        for (k, s) in sess.iter().enumerate() {
            let key = ReceiverEndpoint { endpoint: endpoint(c.sessions[k].2), tsi: s.sender.tsi };
            let ga: Vec<bool> = a.iter().filter(|(_, e)| *e == key).map(|(o, _)| *o).collect();
            let gb: Vec<bool> = b.iter().filter(|(_, e)| *e == key).map(|(o, _)| *o).collect();
            if ga != gb {
                return Err(format!(
                    "two listeners registered on the same receiver saw different events for session (endpoint {:?}, TSI {}): {:?} vs {:?} (true = open); ops {:?}",
                    key.endpoint, key.tsi, ga, gb, c.ops
                ));
            }
        }
    }
    // compare per key (the relative order of events of different keys at one cleanup/drop is unspecified)
    let got = log.borrow();
    for (k, s) in sess.iter().enumerate() {
        let key = ReceiverEndpoint { endpoint: endpoint(c.sessions[k].2), tsi: s.sender.tsi };
        let g: Vec<bool> = got.iter().filter(|(_, e)| *e == key).map(|(o, _)| *o).collect();
        let e: Vec<bool> = expected.iter().filter(|(_, kk)| *kk == k).map(|(o, _)| *o).collect();
        // well-formed: alternating open/close starting with open, all closed at the end
        for (i, o) in g.iter().enumerate() {
            if *o != (i % 2 == 0) {
                return Err(format!("listener events of session (endpoint {:?}, TSI {}) are not (open close)*: {:?}", key.endpoint, key.tsi, g.iter().map(|o| if *o { "open" } else { "close" }).collect::<Vec<_>>()));
            }
        }
        if g.len() % 2 != 0 {
            return Err(format!("session (endpoint {:?}, TSI {}) was opened and never closed although the receiver was dropped: {:?}", key.endpoint, key.tsi, g));
        }
        if g != e {
            return Err(format!(
                "listener events of session (endpoint {:?}, TSI {}): got {:?}, the operation history implies {:?} (true = open); ops {:?}",
                key.endpoint, key.tsi, g, e, c.ops
            ));
        }
    }
    for (_, e) in got.iter() {
        if !c.sessions.iter().enumerate().any(|(k, (_, _, ep))| endpoint(*ep) == e.endpoint && sess[k].sender.tsi == e.tsi) {
            return Err(format!("listener event for an unknown session {:?}", e));
        }
    }
    let mut info = CaseInfo::new();
    info.nt(reopened);
    info.label_if(c.session_timeout, "session timeout");
    info.label_if(reopened, "closed and re-created");
    Ok(info)
}

pub fn listen_strategy() -> BoxedStrategy<ListenCase> {
    let op = prop_oneof![
        5 => (any::<u8>(), 1u8..6).prop_map(|(s, n)| LOp::Push(s, n)),
        2 => any::<u8>().prop_map(LOp::Close),
        1 => Just(LOp::Expire),
        1 => Just(LOp::ExpirePolled),
        2 => Just(LOp::ExpireSpin),
        1 => Just(LOp::Cleanup),
    ];
    (proptest::collection::vec((0usize..corpus::CORPUS_TOTAL, prop_oneof![Just(1u64), Just(2), Just(9)], 0usize..4), 1..4), proptest::collection::vec(op, 1..14), prop_oneof![3 => Just(false), 1 => Just(true)])
        .prop_map(|(sessions, ops, session_timeout)| ListenCase { sessions, ops, session_timeout })
        .boxed()
}

// ------------------------------------------------------------------------------------------

pub fn run(eng: &mut Engine) {
    eng.assume("(a) oracle is differential against the same session pushed alone into a fresh receiver; (b) reference model = reference counts saturating at zero, accept iff all-TSI count of the exact endpoint > 0 or count of (endpoint, TSI) > 0 or count of (endpoint without source, TSI) > 0; (c) model = a session exists from the first accepted non-close packet until its close-session packet, its expiry at a cleanup or the drop of the receiver");
    eng.assume("session expiry uses the wall clock inside flute: 4 ms timeout, the harness sleeps 22 ms before the cleanup that must expire the sessions, and never asserts expiry without that sleep");
    let tier = eng.tier;
    eng.generated(
        PartCfg::new(
            "demux",
            "2-4 corpus sessions on keys drawn from {TSI 1,2,7,2^48-1} x 4 endpoints (two groups x with/without source address), packets merged by a generated schedule; per session the writer trace (callbacks, metadata, bytes) must equal the solo run and carry its own endpoint/TSI; non-trivial = the schedule switches between sessions at least twice; distinct by case",
            tier.pick(30_000, 600_000),
        ),
        demux_strategy,
        run_demux,
    );
    let depth = tier.pick(4u32, 5u32);
    let total = 24u64.pow(depth) * 2;
    eng.enumerated(
        PartCfg::new(
            "filter",
            format!("ALL sequences of length {} over the 24 filter operations {{add,remove}} x 4 endpoints x 2 TSIs + {{add_all,remove_all}} x 4 endpoints (x filtering toggled off/on at the end), 8 probes (4 endpoints x 2 TSIs, fresh single-packet FDT instances) after every operation, against the reference-count model; non-trivial = a count went 1->0 or a source-wildcard entry decided a probe; distinct by sequence", depth),
            total,
        ),
        total,
        move |i| {
            let disable = i % 2 == 1;
            let mut x = i / 2;
            let mut ops = vec![];
            for _ in 0..depth {
                ops.push(fop(x % 24));
                x /= 24;
            }
            FilterCase { ops, disable }
        },
        run_filter,
    );
    eng.generated(
        PartCfg::new(
            "listener",
            "1-3 sessions; operations push-n-packets / close-session packet / expire (sleep + cleanup) / expire-polled (cleanup every millisecond during the silence) / expire-spin (cleanup back to back during the silence) / cleanup, then drop; per (endpoint, TSI) the listener trace must be (open close)*, equal the model's creations and ends, and be closed after the drop; non-trivial = a session was closed and re-created; distinct by case",
            tier.pick(30_000, 600_000),
        ),
        listen_strategy,
        run_listen,
    );
}

pub fn replay(part: &str, case: &Value) -> Option<CaseResult> {
    match part {
        "demux" => Some(run_demux(&serde_json::from_value(case.clone()).ok()?)),
        "filter" => Some(run_filter(&serde_json::from_value(case.clone()).ok()?)),
        "listener" => Some(run_listen(&serde_json::from_value(case.clone()).ok()?)),
        _ => None,
    }
}

#[allow(dead_code)]
fn _j() -> Value {
    json!(null)
}
