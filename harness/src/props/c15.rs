//! C15 TOI allocation: non-zero, within the configured width, unique while live, wire-exact.

use crate::drive::*;
use crate::engine::*;
use crate::spec::*;
use crate::stream;
use flute::sender::Toi;
use proptest::prelude::*;
use serde::{Deserialize, Serialize};
use serde_json::Value;
use std::collections::BTreeSet;

fn _assert_send<T: Send>() {}
fn _assert_sync<T: Sync>() {}
#[allow(dead_code)]
fn _compile_time_bounds() {
    _assert_send::<flute::sender::Sender>();
    _assert_send::<Toi>();
    _assert_sync::<Toi>();
    _assert_send::<Box<Toi>>();
}

#[derive(Debug, Clone, Serialize, Deserialize)]
pub enum Op {
    Allocate,
    DropHandle(u16),
    AddWithHandle(u16),
    AddImplicit,
    /// transmit everything that is pending until no object is left
    FinishAll,
    Remove(u16),
    /// drop a handle from another thread while the owner allocates
    DropInThread(u16),
}

#[derive(Debug, Clone, Serialize, Deserialize)]
pub struct Case {
    pub width: u8,
    #[serde(with = "crate::spec::opt_u128s")]
    pub initial: Option<u128>,
    pub ops: Vec<Op>,
}

fn idx(i: u16, len: usize) -> usize {
    ((i as usize) * len) >> 16
}

pub fn run_case(c: &Case) -> CaseResult {
    let mut info = CaseInfo::new();
    let mut spec = SenderSpec::simple(OtiSpec::nocode(1400, 8));
    spec.toi_width = c.width;
    spec.toi_initial = c.initial;
    let mut drv = SenderDriver::new(&spec)?;
    let limit: u128 = if c.width >= 112 { 1u128 << 112 } else { 1u128 << c.width };
    let mut handles: Vec<Box<Toi>> = vec![];
    let mut objects: Vec<u128> = vec![];
    let mut live: BTreeSet<u128> = BTreeSet::new();
    let mut released: BTreeSet<u128> = BTreeSet::new();
    let mut reused = false;
    let mut wrapped = false;
    let mut last: Option<u128> = None;
    let mut seq = 0u64;
    let check_new = |t: u128, live: &BTreeSet<u128>, how: &str| -> Result<(), String> {
        if t == 0 {
            return Err(format!("{} returned TOI 0 (reserved for the FDT)", how));
        }
        if t >= limit {
            return Err(format!("{} returned TOI {} = 2^{} + ..., which does not fit the configured maximum TOI width of {} bits (initial value {:?})", how, t, 127 - t.leading_zeros(), c.width, c.initial));
        }
        if live.contains(&t) {
            return Err(format!("{} returned TOI {} which is still reserved or attached to a live object", how, t));
        }
        Ok(())
    };
    for op in &c.ops {
        match op {
            Op::Allocate => {
                let h = drv.sender.allocate_toi();
                let t = h.get();
                check_new(t, &live, "allocate_toi()")?;
                if released.contains(&t) {
                    reused = true;
                }
                if let Some(l) = last {
                    if t < l {
                        wrapped = true;
                    }
                }
                last = Some(t);
                live.insert(t);
                handles.push(h);
            }
            Op::DropHandle(i) => {
                if !handles.is_empty() {
                    let h = handles.remove(idx(*i, handles.len()));
                    live.remove(&h.get());
                    released.insert(h.get());
                    drop(h);
                }
            }
            Op::DropInThread(i) => {
                if !handles.is_empty() {
                    let h = handles.remove(idx(*i, handles.len()));
                    let t = h.get();
                    let th = std::thread::spawn(move || drop(h));
                    // the owner keeps allocating meanwhile
                    let h2 = drv.sender.allocate_toi();
                    let t2 = h2.get();
                    th.join().map_err(|_| "thread dropping a handle panicked".to_string())?;
                    // t is live until the thread has dropped it; t2 must differ from everything live and from t unless released first
                    let mut l2 = live.clone();
                    l2.remove(&t);
                    check_new(t2, &l2, "allocate_toi() racing with a drop")?;
                    live.remove(&t);
                    released.insert(t);
                    live.insert(t2);
                    last = Some(t2);
                    handles.push(h2);
                }
            }
            Op::AddWithHandle(i) => {
                if !handles.is_empty() {
                    let h = handles.remove(idx(*i, handles.len()));
                    let want = h.get();
                    seq += 1;
                    let mut o = ObjSpec::simple(10, seq);
                    o.location = format!("file:///t/{}", seq);
                    let mut b = o.build()?;
                    b.desc.set_toi(h);
                    let got = drv.sender.add_object(0, b.desc).map_err(|e| e.0.to_string())?;
                    if got != want {
                        return Err(format!("object added with the reserved TOI {} was given TOI {}", want, got));
                    }
                    objects.push(got);
                }
            }
            Op::AddImplicit => {
                seq += 1;
                let mut o = ObjSpec::simple(10, seq);
                o.location = format!("file:///t/{}", seq);
                let b = o.build()?;
                let t = drv.sender.add_object(0, b.desc).map_err(|e| e.0.to_string())?;
                check_new(t, &live, "add_object() (implicit allocation)")?;
                if released.contains(&t) {
                    reused = true;
                }
                if let Some(l) = last {
                    if t < l {
                        wrapped = true;
                    }
                }
                last = Some(t);
                live.insert(t);
                objects.push(t);
            }
            Op::Remove(i) => {
                if !objects.is_empty() {
                    let t = objects.remove(idx(*i, objects.len()));
                    if !drv.remove(t) {
                        return Err(format!("remove_object({}) returned false for a live object", t));
                    }
                    // reads only happen in FinishAll, which runs every object to its end: no
                    // session holds the removed object, its TOI is released at once
                    live.remove(&t);
                    released.insert(t);
                }
            }
            Op::FinishAll => {
                drv.publish()?;
                let from = drv.log.len();
                drv.run_until_empty(std::time::Duration::from_millis(100), 2000, 200_000)?;
                // wire exactness: every object's packets and FDT entry carry the returned TOI
                let an = stream::analyse(&drv.log[from..]);
                for t in &objects {
                    let sent = an.transfers.get(t).map(|v| v.iter().map(|x| x.pkts.len()).sum::<usize>()).unwrap_or(0);
                    if sent == 0 {
                        return Err(format!("object with TOI {} was transmitted but no packet carries that TOI (TOIs on the wire: {:?})", t, an.transfers.keys().collect::<Vec<_>>()));
                    }
                    if !an.fdts.iter().any(|f| f.lists(*t).is_some()) {
                        return Err(format!("no FDT instance lists TOI {} (listed: {:?})", t, an.fdts.iter().flat_map(|f| f.doc.iter().flat_map(|d| d.files.iter().map(|x| x.toi))).collect::<Vec<_>>()));
                    }
                }
                for k in an.transfers.keys() {
                    if !objects.contains(k) {
                        return Err(format!("packets carry TOI {} which was never returned for a live object", k));
                    }
                }
                for t in objects.drain(..) {
                    live.remove(&t);
                    released.insert(t);
                }
            }
        }
    }
    info.nt(wrapped || reused || c.initial.is_none());
    info.label_if(wrapped, "wrap-around");
    info.label_if(reused, "released TOI reused");
    info.label_if(c.initial.is_none(), "random initial value");
    info.label(format!("width={}", c.width));
    Ok(info)
}

pub fn case_strategy() -> BoxedStrategy<Case> {
    let op = prop_oneof![
        5 => Just(Op::Allocate),
        3 => any::<u16>().prop_map(Op::DropHandle),
        2 => any::<u16>().prop_map(Op::AddWithHandle),
        3 => Just(Op::AddImplicit),
        1 => Just(Op::FinishAll),
        1 => any::<u16>().prop_map(Op::Remove),
        1 => any::<u16>().prop_map(Op::DropInThread),
    ];
    (prop_oneof![Just(16u8), Just(32), Just(48), Just(64), Just(80), Just(112)], 0u8..12, any::<u128>(), proptest::collection::vec(op, 1..60))
        .prop_map(|(width, sel, raw, ops)| {
            let max: u128 = if width >= 112 { (1u128 << 112) - 1 } else { (1u128 << width) - 1 };
            let initial = match sel {
                0 => Some(1),
                1 => Some(0),
                2 => Some(max),
                3 => Some(max - 1),
                4 => Some(max - 2),
                5 | 6 => None,
                // "any initial value": also values that do not fit the configured width
                7 => Some(raw | (max + 1)),
                8 => Some(max + 1),
                // just below a boundary of the LCT TOI field-width classes (16, 32, 48, 64, 80, 96 bits),
                // so that the allocations cross into the next class
                10 | 11 => {
                    let bits = [16u32, 32, 48, 64, 80, 96][(raw % 6) as usize];
                    Some(((1u128 << bits) - 1 - (raw >> 8) % 3) & max)
                }
                _ => Some(raw & max),
            };
            Case { width, initial, ops }
        })
        .boxed()
}

#[derive(Debug, Clone, Serialize, Deserialize)]
pub struct WrapCase {
    #[serde(with = "crate::spec::opt_u128s")]
    pub initial: Option<u128>,
    /// keep the handle of every allocation whose index is in this list alive
    pub keep: Vec<u32>,
    pub total: u32,
    /// additionally keep the handle of the first allocation that returns one of these values
    /// (boundary values of the space: 1, 2, 2^16-2, 2^16-1, and runs that end at the top)
    #[serde(default)]
    pub keep_values: Vec<u32>,
    /// the allocations at the `keep` positions are objects added to the sender (implicit TOI, never
    /// transmitted, so they stay live) instead of reserved handles
    #[serde(default)]
    pub keep_as_object: bool,
}

/// a full trip around the 16-bit TOI space with a few long-lived handles: the allocator has to
/// skip 0 and every value that is still reserved, and values come back only after release
pub fn run_wrap(c: &WrapCase) -> CaseResult {
    let mut spec = SenderSpec::simple(OtiSpec::nocode(1400, 8));
    spec.toi_width = 16;
    spec.toi_initial = c.initial;
    let mut drv = SenderDriver::new(&spec)?;
    let mut kept: Vec<Box<Toi>> = vec![];
    let mut live: BTreeSet<u128> = BTreeSet::new();
    let mut seen_twice = 0u32;
    let mut seen: BTreeSet<u128> = BTreeSet::new();
    let mut live_objects = 0u32;
    for i in 0..c.total {
        if c.keep_as_object && c.keep.contains(&i) {
            let (t, _) = drv.add(&ObjSpec::simple(10, i as u64))?;
            if t == 0 || t >= 1 << 16 {
                return Err(format!("allocation {} (object) returned TOI {} outside 1..2^16", i, t));
            }
            if live.contains(&t) {
                return Err(format!("allocation {} (object) returned TOI {} although a handle or object with that value is still alive ({:?})", i, t, live));
            }
            seen.insert(t);
            live.insert(t);
            live_objects += 1;
            continue;
        }
        let h = drv.sender.allocate_toi();
        let t = h.get();
        if t == 0 || t >= 1 << 16 {
            return Err(format!("allocation {} returned TOI {} outside 1..2^16", i, t));
        }
        if live.contains(&t) {
            return Err(format!("allocation {} returned TOI {} although a handle or object with that value is still alive (kept: {:?})", i, t, live));
        }
        if !seen.insert(t) {
            seen_twice += 1;
        }
        if c.keep.contains(&i) || (c.keep_values.contains(&(t as u32)) && !live.contains(&t)) {
            live.insert(t);
            kept.push(h);
        }
    }
    let mut info = CaseInfo::new();
    info.nt(seen_twice > 0 && !kept.is_empty());
    info.label_if(seen_twice > 0, "went around the 16-bit space");
    info.label_if(live.contains(&65535), "the largest TOI of the width stayed reserved while the allocator wrapped");
    info.label_if(live.contains(&1), "TOI 1 stayed reserved while the allocator wrapped");
    info.label_if(live_objects > 0, "live objects (not only handles) in the way");
    Ok(info)
}

pub fn run(eng: &mut Engine) {
    eng.assume("with toi_initial_value None the first TOI comes from flute's own random generator: that part is a population check (not seed-reproducible); the failing TOI is part of the message");
    eng.assume("thread-safety is covered by compile-time Send/Sync bounds and a handle dropped from a second thread while the owner allocates; exhaustive interleavings are outside this technique");
    let tier = eng.tier;
    eng.generated(
        PartCfg::new(
            "alloc",
            "operation sequences (allocate / drop handle / drop handle in another thread / add with reserved TOI / add with implicit TOI / remove / transmit everything) up to 60 steps x width {16,32,48,64,80,112} x initial value {1, 0, max-2..max, random None, arbitrary}; model = set of live TOIs; packets and FDT entries decoded by the reference decoder; non-trivial = a wrap-around happened, a released TOI was reused or the initial value is random; distinct by case",
            tier.pick(60_000, 2_000_000),
        ),
        case_strategy,
        run_case,
    );
    eng.generated(
        PartCfg::new(
            "wrap16",
            "70 000 allocations on the 16-bit width (more than one trip around the space) with handles (or, in half of the cases, objects added to the sender) kept alive at generated positions and handles at generated values (biased to the ends of the space: 1, 2, 2^16-2, 2^16-1 and runs of up to 4 values ending at the top): no returned value may equal a live handle, 0 or exceed 2^16-1; non-trivial = the allocator went around the space with live handles in its way; distinct by case",
            tier.pick(400, 4000),
        ),
        || {
            let value = prop_oneof![3 => Just(65535u32), 1 => Just(65534u32), 2 => Just(1u32), 1 => Just(2u32), 2 => 1u32..65536];
            (
                prop_oneof![Just(Some(1u128)), Just(Some(65535u128)), Just(None), (1u128..65536).prop_map(Some)],
                proptest::collection::vec(0u32..66_000, 0..8),
                proptest::collection::vec(value, 0..4),
                0u32..5,
                any::<bool>(),
            )
                .prop_map(|(initial, keep, mut keep_values, top_run, keep_as_object)| {
                    for j in 0..top_run {
                        keep_values.push(65535 - j);
                    }
                    keep_values.sort();
                    keep_values.dedup();
                    WrapCase { initial, keep, total: 70_000, keep_values, keep_as_object }
                })
                .boxed()
        },
        run_wrap,
    );
}

pub fn replay(part: &str, case: &Value) -> Option<CaseResult> {
    match part {
        "wrap16" => Some(run_wrap(&serde_json::from_value(case.clone()).ok()?)),
        "alloc" | "pinned" => Some(run_case(&serde_json::from_value(case.clone()).ok()?)),
        _ => None,
    }
}
