//! C01 Clean channel: each accepted object arrives byte-exact, once, with its metadata.

use super::common::*;
use crate::drive::*;
use crate::engine::*;
use crate::gen;
use crate::monitor::{Faults, Monitor, WriterLog};
use crate::rfc::fti::Scheme;
use crate::spec::*;
use base64::Engine as _;
use flute::receiver::writer::ObjectCacheControl;
use flute::receiver::MultiReceiver;
use proptest::prelude::*;
use serde::{Deserialize, Serialize};
use serde_json::Value;
use std::collections::BTreeMap;
use std::io::{Read, Seek, SeekFrom};
use std::rc::Rc;
use std::time::{Duration, SystemTime, UNIX_EPOCH};

#[derive(Debug, Clone, Serialize, Deserialize)]
pub struct Case {
    pub sender: SenderSpec,
    pub objs: Vec<ObjSpec>,
    /// objects with index >= this are added after `late_after` packets (then published)
    pub late_from: usize,
    pub late_after: u32,
    pub rx: RxSpec,
    pub fs_writer: bool,
    pub step_ms: u64,
}

pub struct Accepted {
    pub idx: usize,
    pub toi: u128,
    pub bytes: Vec<u8>,
    pub transfer_len: u64,
    pub eff: OtiSpec,
}

pub struct Session {
    pub drv: SenderDriver,
    pub accepted: Vec<Accepted>,
    pub refused: Vec<(usize, String)>,
    pub publish_instants: Vec<SystemTime>,
    pub read_instants: Vec<SystemTime>,
}

fn floor_secs(t: SystemTime) -> u64 {
    t.duration_since(UNIX_EPOCH).map(|d| d.as_secs()).unwrap_or(0)
}

fn secs(s: u64) -> SystemTime {
    UNIX_EPOCH + Duration::from_secs(s)
}

/// what must be refused: compute the transfer length the object will have
fn add_one(drv: &mut SenderDriver, c: &Case, i: usize, accepted: &mut Vec<Accepted>, refused: &mut Vec<(usize, String)>) -> Result<(), String> {
    let o = &c.objs[i];
    let eff = effective_oti(&c.sender, o).clone();
    match drv.add(o) {
        Ok((toi, bytes)) => {
            let tl = drv.sender.get_objects_in_fdt().get(&toi).map(|d| d.transfer_length).unwrap_or(0);
            if must_refuse(&eff, tl) {
                return Err(format!(
                    "add_object accepted object #{} (transfer length {}) although {:?} E={} B={} cannot carry it (wire limit: {} blocks / {} bytes)",
                    i,
                    tl,
                    eff.scheme,
                    eff.e,
                    eff.b,
                    wire_max_blocks(eff.scheme),
                    wire_max_len(eff.scheme)
                ));
            }
            accepted.push(Accepted { idx: i, toi, bytes, transfer_len: tl, eff });
        }
        Err(e) => refused.push((i, e)),
    }
    Ok(())
}

/// drive sender and receiver in lock step: every emitted packet is pushed at once, in order
pub fn run_session(c: &Case, rx: &mut Rx) -> Result<Session, String> {
    let mut drv = SenderDriver::new(&c.sender)?;
    let mut accepted = vec![];
    let mut refused = vec![];
    let mut publish_instants = vec![];
    let mut read_instants = vec![];
    let late_from = c.late_from.min(c.objs.len()).max(1);
    for i in 0..late_from {
        add_one(&mut drv, c, i, &mut accepted, &mut refused)?;
    }
    if let Ok(xml) = drv.sender.fdt_xml_data(drv.now) {
        let cap = c.sender.oti.to_oti().map(|o| o.max_transfer_length()).unwrap_or(0);
        // late objects make the FDT larger: leave room
        if xml.len() + 64 + 700 * (c.objs.len() - late_from) > cap {
            return Err("DOMAIN: FDT larger than the session OTI can carry".into());
        }
    }
    if c.sender.full_fdt {
        drv.publish().map_err(|e| if e.contains("incompatible with the parameters") { format!("DOMAIN: {}", e) } else { e })?;
        publish_instants.push(drv.now);
    }
    let step = Duration::from_millis(c.step_ms.max(1));
    let mut pkts = 0u64;
    let mut obj_pkts = 0u32;
    let mut polls = 0u32;
    let mut late_done = late_from >= c.objs.len();
    let mut budget: u64 = 5000;
    for o in &c.objs {
        let eff = effective_oti(&c.sender, o);
        budget += ((o.content.size as u64 / eff.e.max(1) as u64) + 8) * (2 + eff.parity as u64) * (o.max_transfer_count as u64 + 1);
    }
    loop {
        read_instants.push(drv.now);
        match drv.read() {
            Some(i) => {
                pkts += 1;
                let (bytes, is_obj) = match &drv.log[i].kind {
                    RecKind::Pkt { bytes, dec } => (bytes.clone(), dec.as_ref().map(|d| d.lct.toi != 0).unwrap_or(true)),
                    _ => unreachable!(),
                };
                if is_obj {
                    obj_pkts += 1;
                }
                rx.push(&bytes, drv.now);
                if is_obj && obj_pkts as u64 > budget * 4 {
                    return Err(format!("sender emitted {} object packets, far more than the objects need", obj_pkts));
                }
                if pkts > 5_000_000 {
                    return Err("sender emitted more than 5e6 packets".into());
                }
            }
            None => {
                if drv.sender.nb_objects() == 0 && late_done {
                    if drv.read().is_none() {
                        break;
                    }
                    continue;
                }
                polls += 1;
                if polls > 50_000 {
                    return Err(format!("objects still listed after {} idle polls of {:?}", polls, step));
                }
                drv.advance(step);
            }
        }
        if !late_done && (obj_pkts >= c.late_after || drv.sender.nb_objects() == 0) {
            for i in late_from..c.objs.len() {
                add_one(&mut drv, c, i, &mut accepted, &mut refused)?;
            }
            if c.sender.full_fdt {
                drv.publish()?;
                publish_instants.push(drv.now);
            }
            late_done = true;
        }
    }
    Ok(Session { drv, accepted, refused, publish_instants, read_instants })
}

pub fn expected_md5(bytes: &[u8]) -> String {
    base64::engine::general_purpose::STANDARD.encode(md5::compute(bytes).0)
}

/// metadata oracle for one completed writer
pub fn check_meta(c: &Case, s: &Session, a: &Accepted, w: &WriterLog) -> Result<(), String> {
    let o = &c.objs[a.idx];
    let m = &w.meta;
    let url = url::Url::parse(&o.location).map_err(|e| e.to_string())?;
    let ctx = |what: &str, got: String, want: String| format!("toi {} (object #{}): {} is {} but the sender was given {}", a.toi, a.idx, what, got, want);
    if m.content_location != url.as_str() {
        return Err(ctx("content location", format!("{:?}", m.content_location), format!("{:?}", url.as_str())));
    }
    if m.content_length != Some(a.bytes.len()) {
        return Err(ctx("content length", format!("{:?}", m.content_length), format!("{}", a.bytes.len())));
    }
    if m.transfer_length != Some(a.transfer_len as usize) {
        return Err(ctx("transfer length", format!("{:?}", m.transfer_length), format!("{}", a.transfer_len)));
    }
    if m.content_type.as_deref() != Some(o.content_type.as_str()) {
        return Err(ctx("content type", format!("{:?}", m.content_type), format!("{:?}", o.content_type)));
    }
    let want_md5 = if o.md5 { Some(expected_md5(&a.bytes)) } else { None };
    if m.md5 != want_md5 {
        return Err(ctx("Content-MD5", format!("{:?}", m.md5), format!("{:?}", want_md5)));
    }
    let mut want_groups: Vec<String> = c.sender.groups.clone().unwrap_or_default();
    want_groups.extend(o.groups.clone().unwrap_or_default());
    let got_groups = m.groups.clone().unwrap_or_default();
    if got_groups != want_groups {
        return Err(ctx("groups", format!("{:?}", got_groups), format!("{:?} (session groups ++ object groups)", want_groups)));
    }
    if m.e_tag != o.etag {
        return Err(ctx("ETag", format!("{:?}", m.e_tag), format!("{:?}", o.etag)));
    }
    if m.cenc.map(|c| c as u8) != Some(o.cenc) {
        return Err(ctx("content encoding", format!("{:?}", m.cenc), format!("{}", o.cenc)));
    }
    // cache directive; FDT-relative values are checked against the set of instants at which the
    // sender could have built the instance (explicit publishes and read() polls)
    let instants = || s.publish_instants.iter().chain(s.read_instants.iter());
    let ok = match (o.cache, m.cache_control) {
        (Some(CacheSpec::NoCache), ObjectCacheControl::NoCache) => true,
        (Some(CacheSpec::MaxStale), ObjectCacheControl::MaxStale) => true,
        (Some(CacheSpec::ExpiresSecs(d)), ObjectCacheControl::ExpiresAt(t)) => instants().any(|p| secs(floor_secs(*p + Duration::from_secs(d))) == t),
        (Some(CacheSpec::ExpiresAtOffsetSecs(off)), ObjectCacheControl::ExpiresAt(t)) => secs(floor_secs(at_ms(off * 1000))) == t,
        (None, ObjectCacheControl::ExpiresAtHint(t)) => instants().any(|p| secs(floor_secs(*p) + c.sender.fdt_duration_s) == t),
        _ => false,
    };
    if !ok {
        return Err(ctx("cache directive", format!("{:?}", m.cache_control), format!("{:?} (fdt duration {} s)", o.cache, c.sender.fdt_duration_s)));
    }
    Ok(())
}

pub fn check_delivery(c: &Case, s: &Session, writers: &[WriterLog], protocol_errors: &[String], info: &mut CaseInfo) -> Result<(), String> {
    if let Some(e) = protocol_errors.first() {
        return Err(format!("object-writer protocol (C09 automaton): {}", e));
    }
    let by_toi: BTreeMap<u128, &Accepted> = s.accepted.iter().map(|a| (a.toi, a)).collect();
    for w in writers {
        if !by_toi.contains_key(&w.toi) {
            return Err(format!("a writer was created for toi {} which the sender never accepted ({})", w.toi, w.trace()));
        }
    }
    for a in &s.accepted {
        let o = &c.objs[a.idx];
        let ws: Vec<&WriterLog> = writers.iter().filter(|w| w.toi == a.toi).collect();
        let completed: Vec<&&WriterLog> = ws.iter().filter(|w| w.completed()).collect();
        let want = if c.rx.receive_once { 1 } else { o.max_transfer_count.max(1) as usize };
        for w in &ws {
            if w.failed() {
                return Err(format!(
                    "toi {} (object #{}, {:?} E={} B={} parity={}, {} bytes, transfer length {}, cenc {}): a writer ended in error/interrupted on a clean channel ({})",
                    a.toi, a.idx, a.eff.scheme, a.eff.e, a.eff.b, a.eff.parity, a.bytes.len(), a.transfer_len, o.cenc, w.trace()
                ));
            }
        }
        if completed.len() != want {
            return Err(format!(
                "toi {} (object #{}, {:?} E={} B={} parity={}, {} bytes, transfer length {}, cenc {}, {} transfer(s), receive_once={}): {} copies completed, expected {}; writers: [{}]",
                a.toi,
                a.idx,
                a.eff.scheme,
                a.eff.e,
                a.eff.b,
                a.eff.parity,
                a.bytes.len(),
                a.transfer_len,
                o.cenc,
                o.max_transfer_count,
                c.rx.receive_once,
                completed.len(),
                want,
                ws.iter().map(|w| w.trace()).collect::<Vec<_>>().join(" | ")
            ));
        }
        for w in &completed {
            if w.data != a.bytes {
                let first = w.data.iter().zip(a.bytes.iter()).position(|(x, y)| x != y);
                return Err(format!(
                    "toi {} (object #{}): completed with {} bytes, the sender's object has {} bytes; first difference at {:?}",
                    a.toi,
                    a.idx,
                    w.data.len(),
                    a.bytes.len(),
                    first
                ));
            }
            check_meta(c, s, a, w)?;
        }
        for w in &ws {
            if !w.completed() && !w.failed() {
                return Err(format!("toi {}: a writer was opened and never finished although the session is over ({})", a.toi, w.trace()));
            }
        }
        let p = ref_partition(&a.eff, a.transfer_len);
        let n = p.map(|p| p.n).unwrap_or(0);
        info.label(scheme_label(a.eff.scheme)).label(cenc_label(o.cenc)).label(blocks_label(n));
        let short_last = a.eff.e != 0 && a.transfer_len % a.eff.e as u64 != 0;
        info.nt(n >= 2 || short_last || o.cenc != 0 || s.accepted.len() >= 2 || !a.eff.inband_fti);
        info.label_if(short_last, "short last symbol");
        info.label_if(!a.eff.inband_fti, "FDT-only OTI");
        info.label_if(p.map(|p| p.i != 0).unwrap_or(false), "unequal blocks");
        info.label_if(o.is_stream(), "stream source");
    }
    Ok(())
}

fn known_exclusion(c: &Case, tls: &[u64], known: &dyn Fn(&str) -> bool) -> Option<String> {
    for (o, tl) in c.objs.iter().zip(tls) {
        let eff = effective_oti(&c.sender, o);
        if known("raptor-small-block") && sig_raptor_small_block(eff, *tl) {
            return Some("raptor-small-block".into());
        }
    }
    if known("completed-registry-gc") && c.rx.receive_once && !c.sender.full_fdt && c.objs.len() >= 2 && c.objs.iter().any(|o| o.max_transfer_count > 1) {
        return Some("completed-registry-gc".into());
    }
    None
}

pub fn run_case(c: &Case, known: &dyn Fn(&str) -> bool) -> CaseResult {
    let mut info = CaseInfo::new();
    if !c.sender.oti.is_constructible() || c.objs.iter().any(|o| !effective_oti(&c.sender, o).is_constructible()) {
        return Ok(CaseInfo::excluded("domain: OTI not constructible"));
    }
    if !session_can_carry_fdt(&c.sender, &c.objs) {
        return Ok(CaseInfo::excluded("domain: FDT does not fit the session OTI"));
    }
    let mut tls = vec![];
    for o in &c.objs {
        tls.push(o.build()?.desc.transfer_length);
    }
    if let Some(k) = known_exclusion(c, &tls, known) {
        return Ok(CaseInfo::excluded(&k));
    }
    let tmp = if c.fs_writer { Some(tempfile::tempdir().map_err(|e| e.to_string())?) } else { None };
    let mut stale_files = 0;
    let mon = match &tmp {
        Some(d) => {
            // an older, LONGER file may already sit where an object is going to be written (an earlier
            // version of the same content location): the file must end up with exactly the object's bytes
            for (i, o) in c.objs.iter().enumerate() {
                if (i + c.objs.len()) % 2 == 0 {
                    if let Ok(url) = url::Url::parse(&o.location) {
                        let rel = url.path().trim_start_matches('/').to_string();
                        if !rel.is_empty() && !rel.ends_with('/') && !rel.split('/').any(|x| x == ".." || x == "." || x.is_empty()) {
                            let path = d.path().join(&rel);
                            if let Some(parent) = path.parent() {
                                let _ = std::fs::create_dir_all(parent);
                            }
                            if std::fs::write(&path, vec![0xEEu8; o.content.size + 37]).is_ok() {
                                stale_files += 1;
                            }
                        }
                    }
                }
            }
            let fsb = flute::receiver::writer::ObjectWriterFSBuilder::new(d.path(), c.rx.md5_check).map_err(|e| e.0.to_string())?;
            Monitor::with_inner(c.rx.md5_check, Faults::none(), Rc::new(fsb))
        }
        None => Monitor::new(c.rx.md5_check, Faults::none()),
    };
    let mut rx = Rx::with_monitor(&c.rx, mon.clone());
    let sess = match caught(|| run_session(c, &mut rx)) {
        Ok(Ok(s)) => s,
        Ok(Err(e)) if e.starts_with("DOMAIN:") => return Ok(CaseInfo::excluded("domain: FDT does not fit the session OTI")),
        Ok(Err(e)) => return Err(e),
        Err(p) => {
            if known("raptor-small-block") && c.sender.oti.scheme == Scheme::Raptor && p.contains("blockencoder.rs") {
                // the FDT instance itself is an object under the Raptor session OTI
                return Ok(CaseInfo::excluded("raptor-small-block(FDT)"));
            }
            return Err(format!("panic during a clean session: {}", p));
        }
    };
    // the FDT instance is itself an object under the session OTI: evaluate the open Raptor
    // signature on the instances that were actually published (their length is on the wire)
    if known("raptor-small-block") && c.sender.oti.scheme == Scheme::Raptor {
        for r in &sess.drv.log {
            if let Some((_, d)) = r.pkt() {
                if d.lct.toi == 0 {
                    if let Some(f) = &d.fti {
                        if sig_raptor_small_block(&c.sender.oti, f.transfer_length) {
                            return Ok(CaseInfo::excluded("raptor-small-block(FDT)"));
                        }
                    }
                }
            }
        }
    }
    if trace_enabled() {
        crate::say!("{}", dump(&sess.drv.log));
        for w in mon.writers() {
            crate::say!("writer #{} toi={} {}", w.idx, w.toi, w.trace());
        }
        crate::say!("rx: push ok={} err={} fdt_received={} nb_objects={} nb_objects_error={}", rx.push_ok, rx.push_errors, mon.fdts().len(), rx.mr.nb_objects(), rx.mr.nb_objects_error());
    }
    drop(rx);
    let writers = mon.writers();
    let perr = mon.protocol_errors();
    info.label(if c.sender.full_fdt { "FullFDT" } else { "ObjectsBeingTransferred" });
    info.label(format!("objects={}", sess.accepted.len()));
    info.label_if(!sess.refused.is_empty(), "an object was refused");
    info.label_if(c.fs_writer, "fs writer");
    info.label_if(stale_files > 0, "fs writer: an older, longer file already at the destination");
    info.label_if(!c.rx.receive_once, "receive-once off");
    check_delivery(c, &sess, &writers, &perr, &mut info)?;
    if let Some(d) = &tmp {
        check_fs(c, &sess, d.path())?;
    }
    Ok(info)
}

fn walk(dir: &std::path::Path, base: &std::path::Path, out: &mut Vec<(String, Vec<u8>)>) {
    if let Ok(rd) = std::fs::read_dir(dir) {
        for e in rd.flatten() {
            let p = e.path();
            if p.is_dir() {
                walk(&p, base, out);
            } else {
                let rel = p.strip_prefix(base).unwrap().to_string_lossy().to_string();
                out.push((rel, std::fs::read(&p).unwrap_or_default()));
            }
        }
    }
}

fn percent_decode(s: &str) -> String {
    let b = s.as_bytes();
    let mut o = vec![];
    let mut i = 0;
    while i < b.len() {
        if b[i] == b'%' && i + 2 < b.len() + 0 && i + 2 <= b.len() - 1 + 0 {
            if let Ok(v) = u8::from_str_radix(&s[i + 1..i + 3], 16) {
                o.push(v);
                i += 3;
                continue;
            }
        }
        o.push(b[i]);
        i += 1;
    }
    String::from_utf8_lossy(&o).to_string()
}

/// filesystem writer: the same bytes end up in the file named by the content location
pub fn check_fs(c: &Case, s: &Session, dest: &std::path::Path) -> Result<(), String> {
    let mut files = vec![];
    walk(dest, dest, &mut files);
    let mut expected: BTreeMap<String, &Accepted> = BTreeMap::new();
    for a in &s.accepted {
        let url = url::Url::parse(&c.objs[a.idx].location).map_err(|e| e.to_string())?;
        let rel = url.path().trim_start_matches('/').to_string();
        // the file may be named by the percent-encoded path (what flute does) or by the decoded one
        let found = files.iter().find(|(p, _)| *p == rel || *p == percent_decode(&rel));
        match found {
            None => {
                return Err(format!(
                    "filesystem writer: no file for {:?} (expected {:?} under the destination); files present: {:?}",
                    c.objs[a.idx].location,
                    rel,
                    files.iter().map(|f| f.0.clone()).collect::<Vec<_>>()
                ))
            }
            Some((p, data)) => {
                if *data != a.bytes {
                    return Err(format!("filesystem writer: file {:?} has {} bytes, the object has {}", p, data.len(), a.bytes.len()));
                }
                expected.insert(p.clone(), a);
            }
        }
    }
    for (p, data) in &files {
        if !expected.contains_key(p) {
            // the older file the harness planted for an object that was then refused by the sender
            let planted = c.objs.iter().enumerate().any(|(i, o)| {
                !s.accepted.iter().any(|a| a.idx == i)
                    && url::Url::parse(&o.location).map(|u| u.path().trim_start_matches('/') == p.as_str()).unwrap_or(false)
                    && data.len() == o.content.size + 37
                    && data.iter().all(|b| *b == 0xEE)
            });
            if planted {
                continue;
            }
            return Err(format!("filesystem writer: unexpected file {:?} in the destination directory", p));
        }
    }
    Ok(())
}

// ------------------------------------------------------------------------------------------
// refusal at the limits with a virtual stream of a claimed length

#[derive(Debug)]
pub struct VirtualStream {
    pub len: u64,
    pub pos: u64,
}

impl Read for VirtualStream {
    fn read(&mut self, buf: &mut [u8]) -> std::io::Result<usize> {
        let n = (buf.len() as u64).min(self.len.saturating_sub(self.pos)) as usize;
        for b in &mut buf[..n] {
            *b = 0x5a;
        }
        self.pos += n as u64;
        Ok(n)
    }
}

impl Seek for VirtualStream {
    fn seek(&mut self, p: SeekFrom) -> std::io::Result<u64> {
        let np: i128 = match p {
            SeekFrom::Start(x) => x as i128,
            SeekFrom::End(d) => self.len as i128 + d as i128,
            SeekFrom::Current(d) => self.pos as i128 + d as i128,
        };
        self.pos = np.max(0) as u64;
        Ok(self.pos)
    }
}

#[derive(Debug, Clone, Serialize, Deserialize)]
pub struct LimitCase {
    pub oti: OtiSpec,
    pub len: u64,
}

pub fn run_limit(l: &LimitCase) -> CaseResult {
    let mut info = CaseInfo::new();
    if !l.oti.is_constructible() {
        return Ok(CaseInfo::excluded("domain: OTI not constructible"));
    }
    let spec = SenderSpec::simple(OtiSpec::nocode(1400, 64));
    let mut sender = spec.build()?;
    let cfg = flute::sender::TransferConfig { oti: Some(l.oti.to_oti()?), ..Default::default() };
    let desc = flute::sender::ObjectDesc::create_from_stream(
        Box::new(VirtualStream { len: l.len, pos: 0 }),
        "application/octet-stream",
        &url::Url::parse("file:///virtual").unwrap(),
        false,
        cfg,
    )
    .map_err(|e| e.0.to_string())?;
    if desc.transfer_length != l.len {
        return Err(format!("stream of {} bytes described with transfer length {}", l.len, desc.transfer_length));
    }
    let r = sender.add_object(0, desc);
    let refuse = must_refuse(&l.oti, l.len);
    info.label(scheme_label(l.oti.scheme));
    info.label(if refuse { "must refuse" } else { "may accept" });
    info.nt(true);
    if refuse && r.is_ok() {
        return Err(format!(
            "add_object accepted a {}-byte object under {:?} E={} B={} although the wire format carries at most {} blocks / {} bytes",
            l.len,
            l.oti.scheme,
            l.oti.e,
            l.oti.b,
            wire_max_blocks(l.oti.scheme),
            wire_max_len(l.oti.scheme)
        ));
    }
    info.label(if r.is_ok() { "accepted" } else { "refused" });
    Ok(info)
}

pub fn limit_strategy() -> BoxedStrategy<LimitCase> {
    (gen::scheme_strategy(), prop_oneof![Just(65535u16), Just(65532), Just(1024), 1u16..=65535], prop_oneof![Just(65535u32), Just(255), Just(8192), Just(56403), 1u32..70000], 0u8..6, 0u64..5, any::<u64>())
        .prop_map(|(scheme, e, b, mode, d, raw)| {
            let mut oti = OtiSpec { scheme, e, b, parity: 0, inband_fti: true, al: 1, nsub: 1 };
            match scheme {
                Scheme::Rs28 | Scheme::Rs28Us => {
                    oti.b = oti.b.min(255);
                }
                Scheme::NoCode => oti.b = oti.b.min(65535),
                Scheme::RaptorQ => oti.b = oti.b.min(56403),
                Scheme::Raptor => oti.b = oti.b.min(8192),
                _ => {}
            }
            let cap_blocks = (oti.e as u128) * (oti.b as u128) * wire_max_blocks(scheme);
            let len: u128 = match mode {
                0 => (1u128 << 40) - 2 + d as u128,
                1 => (1u128 << 48) - 2 + d as u128,
                2 => cap_blocks.saturating_sub(2) + d as u128,
                3 => (1u128 << 44) + d as u128,
                4 => (raw as u128) % (1u128 << 50),
                _ => (1u128 << 40) + (raw as u128 % (1u128 << 45)),
            };
            LimitCase { oti, len: len.min((1u128 << 62) as u128) as u64 }
        })
        .boxed()
}

// ------------------------------------------------------------------------------------------

pub fn rx_strategy() -> BoxedStrategy<RxSpec> {
    (any::<bool>(), prop_oneof![3 => Just(true), 1 => Just(false)], any::<bool>())
        .prop_map(|(receive_once, md5_check, cleanup)| RxSpec { receive_once, md5_check, cleanup_each_push: cleanup, ..RxSpec::default_once() })
        .boxed()
}

pub fn case_strategy(tier: Tier) -> BoxedStrategy<Case> {
    let oo = gen::ObjOpts { max_size: tier.pick(5000, 60_000), ..Default::default() };
    let so = gen::SenderOpts::default();
    (gen::session_strategy(so, oo, 4), 1usize..5, 0u32..40, rx_strategy(), prop_oneof![4 => Just(false), 1 => Just(true)], prop_oneof![Just(1u64), Just(100), Just(1000), 1u64..5000])
        .prop_map(|((sender, objs), late_from, late_after, rx, fs_writer, step_ms)| Case { sender, objs, late_from, late_after, rx, fs_writer, step_ms })
        .boxed()
}

/// objects at the scheme's maximum transfer length and one above, really transmitted (tiny E*B)
pub fn at_limit_strategy() -> BoxedStrategy<Case> {
    (prop_oneof![Just(Scheme::Rs28), Just(Scheme::RaptorQ), Just(Scheme::NoCode)], 1u16..=3, 1u32..=2, 0u32..3, -1i64..=1, any::<bool>(), 0u8..4, any::<bool>())
        .prop_map(|(scheme, e, b, parity, d, inband, cenc_sel, once)| {
            let (e, al) = if scheme == Scheme::RaptorQ { (e * 4, 4u8) } else { (e, 1) };
            let b = if scheme == Scheme::NoCode { 1 } else { b };
            let e = if scheme == Scheme::NoCode { 1 } else { e };
            let eff = OtiSpec { scheme, e, b, parity: if scheme == Scheme::NoCode { 0 } else { parity }, inband_fti: inband, al, nsub: 1 };
            // flute's documented maximum: max_source_blocks_number() * B * E
            let maxblocks: i64 = match scheme {
                Scheme::NoCode => 65535,
                _ => 255,
            };
            let size = (maxblocks * b as i64 * e as i64 + d).max(0) as usize;
            let mut o = ObjSpec::simple(size, 7);
            o.oti = Some(eff);
            o.location = "file:///limit".into();
            // with a content encoding and incompressible content the transfer length exceeds the content
            // length: what counts for the wire is the transfer length
            o.cenc = cenc_sel;
            if cenc_sel != 0 {
                o.content.kind = ContentKind::Random;
                o.md5 = true;
            }
            let sender = SenderSpec::simple(OtiSpec::nocode(1400, 64));
            Case { sender, objs: vec![o], late_from: 1, late_after: 0, rx: RxSpec { receive_once: once, ..RxSpec::default_once() }, fs_writer: false, step_ms: 100 }
        })
        .boxed()
}

pub fn known_fn(eng: &Engine) -> impl Fn(&str) -> bool + Sync + Send + 'static {
    let keys: Vec<String> = eng.known.iter().filter(|k| k.status == "open").map(|k| k.key.clone()).collect();
    move |k: &str| keys.iter().any(|x| x == k)
}

pub fn run(eng: &mut Engine) {
    eng.assume("delivery is observed only through the harness' monitoring ObjectWriter (and the real ObjectWriterFS behind it in the fs-writer cases)");
    eng.assume("metadata that depends on the FDT publication instant (cache Expires(d), ExpiresAtHint) is checked for membership in the set of instants the harness passed to publish()/read()");
    eng.assume("domain: the session's default OTI must be able to carry the FDT instance; RS blocks k+parity<=255; stream sources only with cenc null");
    let tier = eng.tier;
    let known = known_fn(eng);
    let k2 = known_fn(eng);
    eng.generated(
        PartCfg::new(
            "sessions",
            "generated sessions: 1-4 objects (sizes at symbol/block/a_large-a_small boundaries) x 5 schemes x E x B x parity x cenc x in-band/FDT-only FTI and CENC x publish mode x interleave x multiplex x priority queues x transfer count x receive-once x buffer/file/stream sources x buffer/fs writer, every packet pushed in emission order; non-trivial = >=2 blocks or short last symbol or cenc!=null or >=2 objects or FDT-only OTI; distinct by case",
            tier.pick(60_000, 1_500_000),
        )
        .limit_s(60)
        .hang_violates(),
        move || case_strategy(tier),
        move |c| run_case(c, &known),
    );
    eng.generated(
        PartCfg::new(
            "at-limit",
            "objects of exactly max-1, max, max+1 bytes for tiny E*B (RS28 / RaptorQ 255 blocks, No-Code 65535 blocks), with and without a content encoding over incompressible content (transfer length > content length), really transmitted: accepted ones must be delivered, ones the wire cannot carry must be refused; non-trivial = always (boundary sizes); distinct by case",
            tier.pick(240, 2400),
        )
        .limit_s(120)
        .hang_violates(),
        at_limit_strategy,
        move |c| {
            let mut r = run_case(c, &k2)?;
            r.nt(true);
            Ok(r)
        },
    );
    eng.generated(
        PartCfg::new(
            "refusal",
            "virtual seekable streams of a claimed length around 2^40, 2^44, 2^48 and around blocks*B*E per scheme: add_object must refuse what the wire format cannot carry (never transmitted); non-trivial = always; distinct by (OTI, length)",
            tier.pick(200_000, 4_000_000),
        ),
        limit_strategy,
        run_limit,
    );
}

pub fn replay(part: &str, case: &Value) -> Option<CaseResult> {
    match part {
        "sessions" | "at-limit" | "pinned" => {
            let c: Case = serde_json::from_value(case.clone()).ok()?;
            Some(run_case(&c, &|_| false))
        }
        "refusal" => {
            let c: LimitCase = serde_json::from_value(case.clone()).ok()?;
            Some(run_limit(&c))
        }
        _ => None,
    }
}

#[allow(dead_code)]
fn _unused(_: &MultiReceiver) {}
