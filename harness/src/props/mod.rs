use crate::engine::{CaseResult, Engine, Tier};
use serde_json::Value;

pub mod c01;
pub mod c02;
pub mod c03;
pub mod c04;
pub mod c05;
pub mod c06;
pub mod c07;
pub mod c08;
pub mod c09;
pub mod c10;
pub mod c11;
pub mod c12;
pub mod c13;
pub mod c14;
pub mod c15;
pub mod c16;
pub mod c17;
pub mod c18;
pub mod c19;
pub mod c20;
pub mod common;

pub struct Prop {
    pub id: &'static str,
    pub level: &'static str,
    pub run: fn(&mut Engine),
    pub replay: fn(&str, &Value) -> Option<CaseResult>,
}

pub fn all() -> Vec<Prop> {
    vec![
        Prop { id: "C01", level: "exploration", run: c01::run, replay: c01::replay },
        Prop { id: "C02", level: "fault_enumeration", run: c02::run, replay: c02::replay },
        Prop { id: "C03", level: "fault_enumeration", run: c03::run, replay: c03::replay },
        Prop { id: "C04", level: "exploration", run: c04::run, replay: c04::replay },
        Prop { id: "C05", level: "exploration", run: c05::run, replay: c05::replay },
        Prop { id: "C06", level: "exploration", run: c06::run, replay: c06::replay },
        Prop { id: "C07", level: "exploration", run: c07::run, replay: c07::replay },
        Prop { id: "C08", level: "exploration", run: c08::run, replay: c08::replay },
        Prop { id: "C09", level: "exploration", run: c09::run, replay: c09::replay },
        Prop { id: "C10", level: "exploration", run: c10::run, replay: c10::replay },
        Prop { id: "C11", level: "exploration", run: c11::run, replay: c11::replay },
        Prop { id: "C12", level: "exploration", run: c12::run, replay: c12::replay },
        Prop { id: "C13", level: "exploration", run: c13::run, replay: c13::replay },
        Prop { id: "C14", level: "exploration", run: c14::run, replay: c14::replay },
        Prop { id: "C15", level: "exploration", run: c15::run, replay: c15::replay },
        Prop { id: "C16", level: "fault_enumeration", run: c16::run, replay: c16::replay },
        Prop { id: "C17", level: "exploration", run: c17::run, replay: c17::replay },
        Prop { id: "C18", level: "exploration", run: c18::run, replay: c18::replay },
        Prop { id: "C19", level: "exploration", run: c19::run, replay: c19::replay },
        Prop { id: "C20", level: "exploration", run: c20::run, replay: c20::replay },
    ]
}

pub fn find(id: &str) -> Option<Prop> {
    all().into_iter().find(|p| p.id == id)
}

pub fn run_property(id: &str, tier: Tier, seed: u64) -> i32 {
    let p = match find(id) {
        Some(p) => p,
        None => {
            crate::say!("unknown property {}", id);
            return 2;
        }
    };
    let mut eng = Engine::new(p.id, p.level, tier, seed);
    if let Err(pm) = crate::engine::caught(|| (p.run)(&mut eng)) {
        eng.note(format!("HARNESS: panic outside a case: {}", pm));
        eng.extra.insert("harness_error".into(), serde_json::json!(true));
    }
    run_pinned(&p, &mut eng);
    run_regress(&p, &mut eng);
    eng.finish()
}

/// every open known finding of the property: run its pinned minimal input without exclusions;
/// it must still fail with the recorded symptom (KNOWN-FINDING line), a different failure is a
/// violation, a pass is reported as "no longer reproduces".
pub fn run_pinned(p: &Prop, eng: &mut Engine) {
    let open: Vec<crate::engine::KnownFinding> = eng.known.iter().filter(|k| k.status == "open").cloned().collect();
    for k in open {
        if k.minimal_input.is_null() {
            eng.known_finding_line(&k.key, true, "no pinned input recorded; signature-excluded only");
            continue;
        }
        let doc = serde_json::to_string(&serde_json::json!({"property": p.id, "part": k.part, "case": k.minimal_input, "message": "pinned known finding"})).unwrap();
        let _g = crate::watchdog::publish(p.id, doc, std::time::Duration::from_secs(120), false);
        let r = crate::engine::caught(|| (p.replay)(&k.part, &k.minimal_input));
        let msg = match r {
            Ok(Some(Ok(_))) => {
                eng.known_finding_line(&k.key, false, "the pinned input passes");
                continue;
            }
            Ok(Some(Err(m))) => m,
            Ok(None) => {
                eng.note(format!("pinned input of {} could not be replayed (part {:?})", k.key, k.part));
                eng.known_finding_line(&k.key, true, "the pinned input no longer parses; signature-excluded only");
                continue;
            }
            Err(pm) => pm,
        };
        let matches = k.expect.is_empty() || k.expect.split('|').any(|alt| !alt.is_empty() && msg.contains(alt));
        if matches {
            eng.known_finding_line(&k.key, true, &crate::engine::truncate(&msg, 160));
        } else {
            eng.violation("pinned", &k.minimal_input, &format!("pinned input of known finding {} now fails differently: {}", k.key, msg));
        }
    }
}

/// seconds-long replay tier: every saved case under <verif>/regress/<ID>-*.json (minimal inputs of
/// fixed findings, inputs that once escaped the quick tier) is an ordinary regression case
pub fn run_regress(p: &Prop, eng: &mut Engine) {
    let dir = format!("{}/regress", crate::engine::verif_dir());
    let mut files: Vec<std::path::PathBuf> = match std::fs::read_dir(&dir) {
        Ok(rd) => rd.flatten().map(|e| e.path()).filter(|f| f.file_name().and_then(|n| n.to_str()).map(|n| n.starts_with(&format!("{}-", p.id)) && n.ends_with(".json")).unwrap_or(false)).collect(),
        Err(_) => return,
    };
    files.sort();
    if files.is_empty() {
        return;
    }
    let t0 = std::time::Instant::now();
    let mut stats = crate::engine::Stats::default();
    for f in files {
        let txt = match std::fs::read_to_string(&f) {
            Ok(t) => t,
            Err(_) => continue,
        };
        let v: Value = match serde_json::from_str(&txt) {
            Ok(v) => v,
            Err(_) => continue,
        };
        let part = v["part"].as_str().unwrap_or("").to_string();
        let case = v["case"].clone();
        let _g = crate::watchdog::publish(p.id, txt.clone(), std::time::Duration::from_secs(120), true);
        let r = crate::engine::caught(|| (p.replay)(&part, &case));
        match r {
            Ok(Some(Ok(mut info))) => {
                info.nt(true);
                stats.record(&info, crate::engine::fnv(txt.as_bytes()), || serde_json::json!({"file": f.file_name().unwrap().to_string_lossy()}));
            }
            Ok(Some(Err(m))) => eng.violation("regress", &case, &format!("regression case {:?} fails: {}", f.file_name().unwrap(), m)),
            Ok(None) => eng.note(format!("regression case {:?} could not be replayed", f)),
            Err(pm) => eng.violation("regress", &case, &format!("regression case {:?} panics: {}", f.file_name().unwrap(), pm)),
        }
    }
    eng.push_part("regress", "saved cases under /verif/regress (minimal inputs of fixed findings and inputs first found by the thorough tier), replayed without the generators; every one counts as non-trivial", stats, false, false, t0);
}
