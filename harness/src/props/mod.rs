use crate::engine::{CaseResult, Engine, Tier};
use serde_json::Value;

pub mod c07;

pub struct Prop {
    pub id: &'static str,
    pub level: &'static str,
    pub run: fn(&mut Engine),
    pub replay: fn(&str, &Value) -> Option<CaseResult>,
}

pub fn all() -> Vec<Prop> {
    vec![
        Prop { id: "C07", level: "exploration", run: c07::run, replay: c07::replay },
    ]
}

pub fn find(id: &str) -> Option<Prop> {
    all().into_iter().find(|p| p.id == id)
}

pub fn run_property(id: &str, tier: Tier, seed: u64) -> i32 {
    let p = match find(id) {
        Some(p) => p,
        None => {
            crate::say!("unknown property {}", id);
            return 2;
        }
    };
    let mut eng = Engine::new(p.id, p.level, tier, seed);
    (p.run)(&mut eng);
    eng.finish()
}
