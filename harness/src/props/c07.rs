//! C07 Block partitioning equals RFC 5052 §9.1 for all (L, E, B); both ends agree.

use crate::engine::*;
use crate::rfc::fti::{self, Fti, Scheme};
use crate::rfc::lct::{self, LctSpec};
use crate::rfc::partition::partition;
use flute::verif as fv;
use proptest::prelude::*;
use serde::{Deserialize, Serialize};
use serde_json::{json, Value};

#[derive(Debug, Clone, Serialize, Deserialize)]
pub struct Triple {
    pub b: u64,
    pub e: u64,
    pub l: u64,
}

/// compare flute's partition functions with the u128 reference on one triple
pub fn check_triple(t: &Triple, all_blocks_limit: u128) -> Result<(bool, u64), String> {
    let r = partition(t.l as u128, t.e as u128, t.b as u128).ok_or("reference: E or B is 0")?;
    let (a_large, a_small, nb_a_large, nb_blocks) = fv::block_partitioning(t.b, t.l, t.e);
    let ctx = || {
        format!(
            "B={} E={} L={}: flute (a_large={}, a_small={}, nb_a_large={}, nb_blocks={}) reference (T={}, N={}, A_large={}, A_small={}, I={})",
            t.b, t.e, t.l, a_large, a_small, nb_a_large, nb_blocks, r.t, r.n, r.a_large, r.a_small, r.i
        )
    };
    if nb_blocks as u128 != r.n {
        return Err(format!("number of blocks differs; {}", ctx()));
    }
    if r.n == 0 {
        return Ok((false, 1));
    }
    // structure: per block symbol count (the observable meaning of the quadruple)
    let k_flute = |sbn: u128| -> u128 {
        if sbn < nb_a_large as u128 {
            a_large as u128
        } else {
            a_small as u128
        }
    };
    // totals in closed form (valid for any N)
    let total_syms = nb_a_large as u128 * a_large as u128 + (nb_blocks as u128 - (nb_a_large as u128).min(nb_blocks as u128)) * a_small as u128;
    if nb_a_large as u128 > nb_blocks as u128 {
        return Err(format!("more large blocks than blocks; {}", ctx()));
    }
    if total_syms != r.t {
        return Err(format!("blocks cover {} symbols, T={}; {}", total_syms, r.t, ctx()));
    }
    if a_large > t.b || a_small > t.b {
        return Err(format!("a block exceeds B; {}", ctx()));
    }
    let check_block = |sbn: u128| -> Result<(), String> {
        if k_flute(sbn) != r.k(sbn) {
            return Err(format!("block {} has {} symbols, RFC 5052 gives {}; {}", sbn, k_flute(sbn), r.k(sbn), ctx()));
        }
        let bl = fv::block_length(a_large, a_small, nb_a_large, t.l, t.e, sbn as u32) as u128;
        if bl != r.block_len(sbn) {
            return Err(format!("block_length({}) = {}, reference {}; {}", sbn, bl, r.block_len(sbn), ctx()));
        }
        if sbn + 1 < r.n && bl != r.k(sbn) * r.e {
            return Err(format!("block {} is short although it is not the last; {}", sbn, ctx()));
        }
        Ok(())
    };
    let mut evaluated = 1u64;
    if r.n <= all_blocks_limit {
        let mut sum: u128 = 0;
        for sbn in 0..r.n {
            check_block(sbn)?;
            sum += fv::block_length(a_large, a_small, nb_a_large, t.l, t.e, sbn as u32) as u128;
            evaluated += 1;
        }
        if sum != t.l as u128 {
            return Err(format!("block lengths sum to {} not L; {}", sum, ctx()));
        }
    } else if r.n <= u32::MAX as u128 {
        let mut probe: Vec<u128> = vec![0, 1, r.n - 1, r.n.saturating_sub(2), r.n / 2];
        for d in 0..3u128 {
            probe.push(r.i.saturating_sub(d));
            probe.push((r.i + d).min(r.n - 1));
        }
        for sbn in probe {
            if sbn < r.n {
                check_block(sbn)?;
                evaluated += 1;
            }
        }
    }
    let nontrivial = r.t % r.n != 0 || t.l % t.e != 0 || t.l >= (1u64 << 32);
    Ok((nontrivial, evaluated))
}

#[derive(Debug, Clone, Serialize, Deserialize)]
pub struct Agree {
    pub raptorq: bool,
    pub b: u64,
    pub e: u16,
    pub l: u64,
    pub al: u8,
}

/// receiver-side reconstruction of B from Z (RaptorQ / Raptor FTI) gives the same partition
pub fn check_agree(a: &Agree) -> CaseResult {
    let mut info = CaseInfo::new();
    let scheme = if a.raptorq { Scheme::RaptorQ } else { Scheme::Raptor };
    let r = partition(a.l as u128, a.e as u128, a.b as u128).ok_or("reference")?;
    let zmax: u128 = if a.raptorq { 255 } else { 65535 };
    if r.n == 0 || r.n > zmax {
        // sender refuses (or nothing to send): outside the domain of this relation
        info.label("out-of-domain(Z)");
        return Ok(info);
    }
    // Z as the sender derives it: number of blocks of ITS partition
    let (_, _, _, nb_blocks) = fv::block_partitioning(a.b, a.l, a.e as u64);
    let mut f = Fti::blank(scheme);
    f.transfer_length = a.l;
    f.e = a.e;
    f.z = nb_blocks as u16;
    f.n = 1;
    f.al = a.al;
    let spec = LctSpec {
        version: 1,
        psi: 0,
        res: 0,
        c: 0,
        cci: 0,
        s: 0,
        o: 0,
        h: 1,
        tsi: 1,
        toi: 5,
        cp: scheme.fec_id(),
        close_session: false,
        close_object: false,
        exts: vec![fti::encode(&f)],
    };
    let mut pkt = lct::build(&spec);
    pkt.extend_from_slice(&[0, 0, 0, 0]);
    pkt.extend_from_slice(&vec![0u8; a.e as usize]);
    let parsed = flute::core::alc::parse_alc_pkt(&pkt).map_err(|e| format!("flute rejects a valid {:?} FTI {:?}: {}", scheme, f, e.0))?;
    let oti = parsed.oti.ok_or("flute did not return the OTI of the FTI")?;
    let tl = parsed.transfer_length.ok_or("no transfer length")?;
    if tl != a.l {
        return Err(format!("transfer length {} parsed as {}", a.l, tl));
    }
    let bp = oti.maximum_source_block_length as u64;
    let recv = Triple { b: bp, e: a.e as u64, l: a.l };
    // receiver's partition (with reconstructed B') must have the per-block structure of the
    // reference partition with the sender's B
    let (al2, as2, nl2, nb2) = fv::block_partitioning(recv.b, recv.l, recv.e);
    if nb2 as u128 != r.n {
        return Err(format!(
            "{:?}: sender B={} gives N={}, receiver reconstructs B'={} from Z={} and gets N={} (L={}, E={})",
            scheme, a.b, r.n, bp, f.z, nb2, a.l, a.e
        ));
    }
    let probes: Vec<u128> = if r.n <= 512 { (0..r.n).collect() } else { vec![0, r.i.saturating_sub(1), r.i.min(r.n - 1), r.n - 1] };
    for sbn in probes {
        let k2 = if sbn < nl2 as u128 { al2 as u128 } else { as2 as u128 };
        if k2 != r.k(sbn) {
            return Err(format!(
                "{:?}: block {} has {} symbols at the sender (B={}) and {} at the receiver (B'={}); L={} E={}",
                scheme,
                sbn,
                r.k(sbn),
                a.b,
                k2,
                bp,
                a.l,
                a.e
            ));
        }
        let bl = fv::block_length(al2, as2, nl2, a.l, a.e as u64, sbn as u32) as u128;
        if bl != r.block_len(sbn) {
            return Err(format!("{:?}: receiver block_length({})={} reference {}", scheme, sbn, bl, r.block_len(sbn)));
        }
    }
    info.label(if a.raptorq { "raptorq" } else { "raptor" });
    info.nt(r.t % r.n != 0 || a.l % a.e as u64 != 0);
    Ok(info)
}

fn big_triple() -> BoxedStrategy<Triple> {
    let pow_pm = |maxbits: u32| {
        (1u32..maxbits, -1i64..=1).prop_map(move |(bits, d)| ((1u128 << bits) as i128 + d as i128).max(1) as u64)
    };
    let bs = prop_oneof![
        3 => 1u64..200,
        2 => pow_pm(32),
        1 => Just(u32::MAX as u64),
        2 => 1u64..(u32::MAX as u64),
    ];
    let es = prop_oneof![
        3 => 1u64..64,
        2 => prop_oneof![Just(1u64), Just(2), Just(255), Just(256), Just(1024), Just(1400), Just(1424), Just(65535), Just(65534)],
        2 => 1u64..=65535,
    ];
    (bs, es, any::<u64>(), 0u8..8, -2i64..=2)
        .prop_map(|(b, e, raw, mode, d)| {
            let lmax: u128 = (1u128 << 48) - 1;
            let raw = (raw as u128) % (lmax + 1);
            let l: u128 = match mode {
                0 => raw,
                1 => raw % 100_000,
                // L = n*E + d
                2 => ((raw / e as u128) * e as u128).saturating_add_signed(d as i128),
                // T = n*B + d symbols
                3 => {
                    let n = (raw % 5000) as u128;
                    ((n * b as u128).saturating_add_signed(d as i128)).saturating_mul(e as u128)
                }
                // powers of two +- d
                4 => (1u128 << (raw % 48)).saturating_add_signed(d as i128),
                5 => lmax - (raw % 70000),
                // T mod N sweep: T around multiples of N for small B
                6 => (raw % (b as u128 * 300 + 1)) * e as u128 + (raw % e as u128),
                _ => raw % (1u128 << 33),
            };
            Triple { b, e, l: l.min(lmax) as u64 }
        })
        .boxed()
}

fn agree_strategy() -> BoxedStrategy<Agree> {
    (any::<bool>(), 1u64..3000, 0u8..4, 1u16..400, any::<u64>(), 0u8..5)
        .prop_map(|(raptorq, b, alsel, emul, raw, mode)| {
            let al = [1u8, 2, 4, 8][alsel as usize];
            let e = (emul as u32 * al as u32).min(65528) as u16;
            let zmax: u128 = if raptorq { 255 } else { 65535 };
            let cap = ((b as u128 * e as u128 * zmax).min((1u128 << 40) - 1)) as u64;
            let l = match mode {
                0 => raw % (cap + 1),
                1 => cap - (raw % (e as u64 * 3).min(cap)),
                2 => (raw % 200_000).min(cap),
                3 => ((raw % (cap / e as u64 + 1)) * e as u64).min(cap),
                _ => raw % (cap.min(1 << 24) + 1),
            };
            Agree { raptorq, b, e, l: l.max(1), al }
        })
        .boxed()
}

pub fn run(eng: &mut Engine) {
    eng.assume("reference partition is my own u128 transcription of RFC 5052 §9.1 (rfc/partition.rs)");
    eng.assume("flute built with overflow checks and debug assertions on: an arithmetic overflow is a panic and is reported");
    let (bmax, emax, lmax) = eng.tier.pick((64u64, 24u64, 4000u64), (128, 32, 8000));
    // exhaustive box, one chunk per (B, E)
    let chunks = bmax * emax;
    eng.chunked(
        PartCfg::new(
            "box",
            format!(
                "all (B,E,L) with 1<=B<={}, 1<=E<={}, 0<=L<={} enumerated; every block of every triple compared with the u128 reference; non-trivial = T mod N != 0 or L mod E != 0 (distinct by construction of the enumeration)",
                bmax, emax, lmax
            ),
            chunks * (lmax + 1),
        ),
        chunks,
        true,
        |c, st| {
            let b = c / emax + 1;
            let e = c % emax + 1;
            for l in 0..=lmax {
                let t = Triple { b, e, l };
                match check_triple(&t, u128::MAX) {
                    Ok((nt, _)) => {
                        st.evaluations += 1;
                        if nt {
                            st.nontrivial_count += 1;
                            if st.samples.len() < 2 && l > 3 * e * b {
                                st.samples.push(json!(t));
                            }
                        }
                    }
                    Err(m) => return Err((json!(t), m)),
                }
            }
            Ok(())
        },
    );
    // faces of the thorough box in quick: B or E at the far boundary
    if false {
        let faces: Vec<(u64, u64)> = (1..=64u64).map(|b| (b, 24u64)).chain((1..=24u64).map(|e| (64u64, e))).chain((33..=64u64).map(|b| (b, 1))).collect();
        let n = faces.len() as u64;
        eng.chunked(
            PartCfg::new("faces", "faces of the (64,24,4000) box: (B,24,L), (64,E,L), (B>32,1,L) for all L<=4000; non-trivial as in [box]", n * 4001),
            n,
            true,
            |c, st| {
                let (b, e) = faces[c as usize];
                for l in 0..=4000u64 {
                    let t = Triple { b, e, l };
                    match check_triple(&t, u128::MAX) {
                        Ok((nt, _)) => {
                            st.evaluations += 1;
                            if nt {
                                st.nontrivial_count += 1;
                            }
                        }
                        Err(m) => return Err((json!(t), m)),
                    }
                }
                Ok(())
            },
        );
    }
    let cases = eng.tier.pick(2_000_000, 40_000_000);
    eng.generated(
        PartCfg::new(
            "boundary",
            "seeded triples up to B<2^32, E<=65535, L<2^48 (powers of two +-1, L=n*E+-d, T=n*B+-d, top of the 48-bit range); all blocks compared when N<=4096, first/last/around I otherwise; non-trivial = unequal blocks, short last symbol or L>=2^32; distinct by triple",
            cases,
        ),
        big_triple,
        |t| {
            let (nt, _) = check_triple(t, 4096)?;
            let mut i = CaseInfo::new();
            i.nt(nt);
            i.label_if(t.l >= 1 << 32, "L>=2^32");
            i.label_if(t.l >= 1 << 47, "L>=2^47");
            i.label_if(t.b >= 1 << 31, "B>=2^31");
            i.label_if(t.e > 32768, "E>32768");
            Ok(i)
        },
    );
    let cases = eng.tier.pick(600_000, 10_000_000);
    eng.generated(
        PartCfg::new(
            "agreement",
            "RaptorQ/Raptor: Z derived by flute's sender-side partition is put into a reference-built EXT_FTI, parsed by flute, and the B' flute reconstructs must give the reference partition of the sender's B; non-trivial = unequal blocks or short last symbol; distinct by (scheme,B,E,L)",
            cases,
        ),
        agree_strategy,
        check_agree,
    );
    let n = eng.tier.pick(200_000, 3_000_000);
    eng.generated(
        PartCfg::new(
            "sessions",
            "real sessions of one small object (all schemes, 1-4 blocks equal and unequal, short last symbol, content encodings so that transfer length != content length, in-band / FDT-only FTI): (1) the partition a receiver derives from the in-band EXT_FTI and from the FDT (for RaptorQ/Raptor through Z) is the RFC 5052 partition of the sender's (L, E, B); (2) the sender's emitted (SBN, ESI) structure is that partition; (3) flute's receiver rebuilds the exact bytes with the FDT first and with the FDT last; non-trivial = >= 2 blocks or L mod E != 0; distinct by case",
            n,
        ),
        || crate::chan::small_session_strategy(crate::chan::SmallOpts { max_symbols: 12, allow_cenc: true, allow_empty: true, allow_two_objects: false, ..Default::default() }).prop_map(|sess| SessCase { sess }).boxed(),
        check_session,
    );
}

// ------------------------------------------------------------------------------------------
// end to end: what the sender announces, how it really cuts the object, and what flute's own
// receiver derives from either announcement are one and the same RFC 5052 partition

#[derive(Debug, Clone, Serialize, Deserialize)]
pub struct SessCase {
    pub sess: crate::chan::SessSpec,
}

pub fn check_session(c: &SessCase) -> CaseResult {
    use crate::chan::*;
    let mut info = CaseInfo::new();
    let ls = build_session(&c.sess).map_err(|e| format!("HARNESS: cannot build the session: {}", e))?;
    if ls.packets.is_empty() {
        return Ok(CaseInfo::excluded("domain: empty session"));
    }
    for (oi, o) in ls.objs.iter().enumerate() {
        let r = partition(o.transfer_len as u128, o.cfg_e as u128, o.cfg_b as u128).ok_or("reference: E or B is 0")?;
        let kref: Vec<u32> = (0..r.n).map(|s| r.k(s) as u32).collect();
        // (1) both announcements describe the reference partition of the configured (B, E) and the transfer length
        for (what, w) in [("in-band EXT_FTI", &o.wire_fti), ("FDT", &o.wire_fdt)] {
            if let Some(w) = w {
                if w.l != o.transfer_len {
                    return Err(format!("object {} (toi {}): the {} announces transfer length {}, the object has {}", oi, o.toi, what, w.l, o.transfer_len));
                }
                let p = w.partition().ok_or(format!("object {} (toi {}): the OTI announced by the {} cannot be partitioned: {:?}", oi, o.toi, what, w))?;
                let k: Vec<u32> = (0..p.n).map(|s| p.k(s) as u32).collect();
                if k != kref && o.transfer_len > 0 {
                    return Err(format!(
                        "object {} (toi {}, {:?}, transfer length {}, E={}, B={}): a receiver using the {} ({:?}) derives blocks of {:?} symbols, RFC 5052 for the sender's (L, E, B) gives {:?}",
                        oi, o.toi, o.scheme, o.transfer_len, o.cfg_e, o.cfg_b, what, w, k, kref
                    ));
                }
            }
        }
        // (2) the sender's real cut: in the first transfer every block sbn emits exactly the source ESIs 0..k_ref(sbn)
        let mut seen: std::collections::BTreeMap<u32, std::collections::BTreeSet<u32>> = Default::default();
        let mut max_sbn = None;
        for k in &ls.kinds {
            if let PktKind::Obj { obj, transfer: 0, sbn, esi, .. } = k {
                if *obj == oi {
                    seen.entry(*sbn).or_default().insert(*esi);
                    max_sbn = Some(max_sbn.unwrap_or(0).max(*sbn));
                }
            }
        }
        if o.transfer_len > 0 {
            if max_sbn.map(|m| m as u128 + 1) != Some(r.n) {
                return Err(format!("object {} (toi {}): the sender emitted source blocks 0..={:?}, RFC 5052 gives {} blocks (L={}, E={}, B={})", oi, o.toi, max_sbn, r.n, o.transfer_len, o.cfg_e, o.cfg_b));
            }
            for (sbn, kk) in kref.iter().enumerate() {
                let have = seen.get(&(sbn as u32)).cloned().unwrap_or_default();
                if !(0..*kk).all(|e| have.contains(&e)) {
                    return Err(format!("object {} (toi {}): block {} should hold {} source symbols (RFC 5052), the sender emitted ESIs {:?}", oi, o.toi, sbn, kk, have));
                }
            }
        }
        info.label_if(r.a_large != r.a_small, "unequal blocks");
        info.label_if(o.wire_fti.is_some(), "in-band FTI");
        info.label_if(c.sess.objs[oi].cenc != 0, "content encoding (transfer length != content length)");
        info.label(format!("{:?}", o.scheme));
    }
    // (3) flute's own receiver, taking the OTI from the FDT (emission order) or from the in-band FTI /
    // the cache (every object packet first, the FDT afterwards), rebuilds the exact bytes
    let n = ls.packets.len();
    let in_order: Vec<usize> = (0..n).collect();
    let mut late_fdt: Vec<usize> = (0..n).filter(|i| matches!(ls.kinds[*i], PktKind::Obj { .. })).collect();
    late_fdt.extend((0..n).filter(|i| !matches!(ls.kinds[*i], PktKind::Obj { .. })));
    for (what, order) in [("in emission order", &in_order), ("with every object packet before the FDT", &late_fdt)] {
        let rx = crate::drive::RxSpec { receive_once: true, md5_check: true, ..crate::drive::RxSpec::default_once() };
        let d = deliver(&ls, order, &[], &rx, crate::monitor::Faults::none(), true)?;
        for (oi, o) in ls.objs.iter().enumerate() {
            // (how many copies is C01's business; here: delivered, every copy exact, no copy failed)
            let mine: Vec<_> = d.writers_after_drop.iter().filter(|w| w.toi == o.toi).collect();
            let done: Vec<_> = mine.iter().filter(|w| w.completed()).collect();
            if done.is_empty() || done.iter().any(|w| w.data != o.bytes) || mine.iter().any(|w| w.failed()) {
                return Err(format!(
                    "object {} (toi {}, {:?}, transfer length {}, E={}, B={}, announced by FTI {:?} / FDT {:?}): all packets delivered {} but {} exact copies completed; writers {:?}",
                    oi,
                    o.toi,
                    o.scheme,
                    o.transfer_len,
                    o.cfg_e,
                    o.cfg_b,
                    o.wire_fti,
                    o.wire_fdt,
                    what,
                    done.iter().filter(|w| w.data == o.bytes).count(),
                    d.writers_after_drop.iter().filter(|w| w.toi == o.toi).map(|w| w.trace()).collect::<Vec<_>>()
                ));
            }
        }
    }
    info.nt(ls.objs.iter().any(|o| o.k.len() >= 2 || o.transfer_len % o.cfg_e.max(1) as u64 != 0));
    Ok(info)
}

pub fn replay(part: &str, case: &Value) -> Option<CaseResult> {
    match part {
        "box" | "faces" | "boundary" => {
            if let Some(c) = case.get("chunk") {
                return Some(Err(format!("chunk {} is not replayable as a single triple", c)));
            }
            let t: Triple = serde_json::from_value(case.clone()).ok()?;
            Some(check_triple(&t, 4096).map(|(nt, _)| {
                let mut i = CaseInfo::new();
                i.nt(nt);
                i
            }))
        }
        "agreement" => {
            let a: Agree = serde_json::from_value(case.clone()).ok()?;
            Some(check_agree(&a))
        }
        "sessions" => Some(check_session(&serde_json::from_value(case.clone()).ok()?)),
        _ => None,
    }
}
