//! C19 FDT expiry: delivery only through an FDT unexpired on the sender's clock.

use crate::drive::*;
use crate::engine::*;
use crate::monitor::Faults;
use crate::rfc::fti::Scheme;
use crate::spec::*;
use proptest::prelude::*;
use serde::{Deserialize, Serialize};
use serde_json::Value;
use std::time::{Duration, SystemTime};

#[derive(Debug, Clone, Serialize, Deserialize)]
pub struct Case {
    pub duration_s: u64,
    pub sct: bool,
    pub check: bool,
    /// receiver clock = sender clock + offset
    pub offset_s: i64,
    /// transit delay of the FDT packets (ms)
    pub fdt_delay_ms: u64,
    /// arrival of the object packets relative to the arrival of the FDT (ms, negative = before)
    pub obj_gap_ms: i64,
    pub scheme: Scheme,
    pub inband_fti: bool,
    pub size: usize,
    /// > 0: the FDT is cut into 64-byte symbols and the sender's clock advances by this much after
    /// every FDT packet (a paced / partly repeated FDT): the instance completes `spread` after its
    /// first packet and the estimate of the sender clock must follow the latest SCT, not the first
    #[serde(default)]
    pub fdt_step_ms: u64,
}

fn shift(t: SystemTime, ms: i128) -> SystemTime {
    if ms >= 0 {
        t + Duration::from_millis(ms as u64)
    } else {
        t - Duration::from_millis((-ms) as u64)
    }
}

/// the same packet with its EXT_TIME rewritten to carry SCT-High only (reference decode -> re-encode)
fn sct_high_only(p: &[u8]) -> Vec<u8> {
    use crate::rfc::lct::{self, ExtTime, LctSpec};
    let d = match crate::rfc::pkt::decode(p, 0) {
        Ok(d) => d,
        Err(_) => return p.to_vec(),
    };
    let t = match &d.time {
        Some(t) if t.sct_hi.is_some() => t.clone(),
        _ => return p.to_vec(),
    };
    let mut exts = d.lct.exts.clone();
    for x in exts.iter_mut() {
        if x.het == lct::EXT_TIME {
            *x = lct::ext_time(&ExtTime { sct_hi: t.sct_hi, sct_low: None, ert: None, slc: None });
        }
    }
    let spec = LctSpec { version: d.lct.version, psi: d.lct.psi, res: d.lct.res, c: d.lct.c, cci: d.lct.cci, s: d.lct.s, o: d.lct.o, h: d.lct.h, tsi: d.lct.tsi, toi: d.lct.toi, cp: d.lct.cp, close_session: d.lct.close_session, close_object: d.lct.close_object, exts };
    let mut out = lct::build(&spec);
    out.extend_from_slice(&p[d.lct.header_len..]);
    out
}

pub struct Outcome {
    /// sender time between the first and the last FDT packet (ms)
    pub spread_ms: i128,
    /// arrival of the object relative to the arrival of the first FDT packet (ms)
    pub obj_rel_first_ms: i128,
    pub delivered: bool,
    pub any_writer: bool,
    pub traces: Vec<String>,
}

pub fn run_once(c: &Case, offset_s: i64) -> Result<Outcome, String> {
    let al = if matches!(c.scheme, Scheme::RaptorQ | Scheme::Raptor) { 4 } else { 1 };
    let paced = c.fdt_step_ms > 0;
    let mut sender = SenderSpec::simple(OtiSpec { scheme: Scheme::NoCode, e: if paced { 64 } else { 4096 }, b: 64, parity: 0, inband_fti: true, al: 1, nsub: 1 });
    sender.fdt_duration_s = c.duration_s;
    sender.inband_sct = c.sct;
    let mut o = ObjSpec::simple(c.size, 19);
    o.oti = Some(OtiSpec { scheme: c.scheme, e: 16, b: 4, parity: if c.scheme == Scheme::NoCode { 0 } else { 1 }, inband_fti: c.inband_fti, al, nsub: 1 });
    o.location = "file:///c19".into();
    let mut drv = SenderDriver::new(&sender)?;
    let (toi, bytes) = drv.add(&o)?;
    drv.publish()?;
    let s0 = drv.now;
    if paced {
        // the sender's clock moves on after every FDT packet; the object follows the complete FDT (C11)
        for _ in 0..10_000 {
            match drv.read() {
                Some(i) => {
                    let is_fdt = drv.log[i].pkt().map(|(_, d)| d.lct.toi == 0).unwrap_or(false);
                    if !is_fdt {
                        break;
                    }
                    drv.advance(Duration::from_millis(c.fdt_step_ms));
                }
                None => break,
            }
        }
    }
    drv.drain(10_000)?;
    let mut fdt: Vec<Vec<u8>> = vec![];
    let mut fdt_t: Vec<SystemTime> = vec![];
    let mut obj: Vec<Vec<u8>> = vec![];
    let mut ids = std::collections::BTreeSet::new();
    for r in &drv.log {
        if let Some((b, d)) = r.pkt() {
            if d.lct.toi == 0 {
                if !obj.is_empty() {
                    // an FDT repetition behind the object: not part of this scenario
                    continue;
                }
                ids.insert(d.fdt.map(|f| f.1));
                fdt.push(b.clone());
                fdt_t.push(r.t);
            } else {
                obj.push(b.clone());
            }
        }
    }
    if ids.len() > 1 {
        return Err("DOMAIN: the sender renewed the FDT instance while it was being paced".into());
    }
    let spread_ms: i128 = match (fdt_t.first(), fdt_t.last()) {
        (Some(a), Some(b)) => b.duration_since(*a).map(|d| d.as_millis() as i128).unwrap_or(0),
        _ => 0,
    };
    // RFC 5651 allows EXT_TIME with SCT-High only (whole seconds): an independent sender may use that
    // form; the estimate of the sender clock is then exact to the second, which the +-2 s margin covers
    if c.sct && c.size % 2 == 0 && c.fdt_delay_ms % 2 == 1 {
        for p in fdt.iter_mut() {
            *p = sct_high_only(p);
        }
    }
    let transit = offset_s as i128 * 1000 + c.fdt_delay_ms as i128;
    // arrival of every FDT packet = its sender time + clock offset + transit delay
    let arrivals: Vec<SystemTime> = fdt_t.iter().map(|t| shift(*t, transit)).collect();
    let r_first = shift(s0, transit);
    let r_f = shift(r_first, spread_ms);
    // the object gap counts from the first FDT packet; an object "after" the FDT never precedes its last packet
    let r_o = if c.obj_gap_ms >= 0 { shift(r_first, (c.obj_gap_ms as i128).max(spread_ms)) } else { shift(r_first, c.obj_gap_ms as i128) };
    let obj_rel_first_ms: i128 = if c.obj_gap_ms >= 0 { (c.obj_gap_ms as i128).max(spread_ms) } else { c.obj_gap_ms as i128 };
    let _ = r_f;
    let spec = RxSpec { expiry_check: c.check, cleanup_each_push: true, ..RxSpec::default_once() };
    let mut rx = Rx::new(&spec, Faults::none());
    if c.obj_gap_ms >= 0 {
        for (p, t) in fdt.iter().zip(&arrivals) {
            rx.push(p, *t);
        }
        for p in &obj {
            rx.push(p, r_o);
        }
    } else {
        for p in &obj {
            rx.push(p, r_o);
        }
        for (p, t) in fdt.iter().zip(&arrivals) {
            rx.push(p, *t);
        }
    }
    let ws = rx.mon.writers();
    let perr = rx.mon.protocol_errors();
    drop(rx);
    if let Some(e) = perr.first() {
        return Err(format!("object-writer protocol: {}", e));
    }
    let delivered = ws.iter().any(|w| w.toi == toi && w.completed() && w.data == bytes);
    if ws.iter().any(|w| w.completed() && w.data != bytes) {
        return Err("completed with wrong bytes".into());
    }
    Ok(Outcome { spread_ms, obj_rel_first_ms, delivered, any_writer: !ws.is_empty(), traces: ws.iter().map(|w| w.trace()).collect() })
}

pub fn run_case(c: &Case) -> CaseResult {
    let mut info = CaseInfo::new();
    // the receiver's estimate of the sender clock (ms relative to the publication instant S0)
    //   with SCT:    S0 + (t - arrival_fdt)          -> offset and transit delay cancel out
    //   without SCT: t = S0 + offset + delay (+ gap)
    let beyond_ntp = T0_SECS + c.duration_s >= 2_085_978_496;
    if beyond_ntp && c.check {
        return Ok(CaseInfo::excluded("domain: Expires beyond the 32-bit NTP second range with the check on"));
    }
    let out = match run_once(c, c.offset_s) {
        Ok(o) => o,
        Err(e) if e.starts_with("DOMAIN:") => return Ok(CaseInfo::excluded("domain: the sender renewed the FDT while it was being paced")),
        Err(e) => return Err(e),
    };
    // estimate when the first FDT packet arrives, then `spread` later when the instance completes (the SCT of
    // every packet is the sender's clock when it was sent; all packets share one transit delay)
    let est_first: i128 = if c.sct { 0 } else { c.offset_s as i128 * 1000 + c.fdt_delay_ms as i128 };
    let est_at_fdt: i128 = est_first + out.spread_ms;
    let est_at_obj: i128 = est_first + out.obj_rel_first_ms;
    let expires: i128 = c.duration_s as i128 * 1000;
    // decisive instants: the FDT on completion, and (when it comes later) the first object packet
    // Expires is carried as 32-bit NTP seconds: an instant beyond 2036-02-07 cannot be expressed, what a
    // receiver makes of such an instance with the check ON is outside the property; with the check OFF
    // expiry is ignored whatever the attribute says
    let decisive: Vec<i128> = if c.obj_gap_ms >= 0 { vec![est_at_fdt, est_at_obj] } else { vec![est_at_fdt] };
    if decisive.iter().any(|e| (e - expires).abs() <= 2000) {
        return Ok(CaseInfo::excluded("domain: within +-2 s of Expires (granularity excluded by the property)"));
    }
    let unexpired = decisive.iter().all(|e| *e < expires);
    let expect_delivery = !c.check || unexpired;
    let ctx = || {
        format!(
            "duration {} s, SCT {}, expiry check {}, receiver clock offset {} s, FDT transit {} ms, FDT packets spread over {} ms, object {} ms {} the first FDT packet; estimate of the sender clock relative to publication: at FDT arrival {} ms, at the object {} ms; Expires at {} ms; writers {:?}",
            c.duration_s,
            c.sct,
            c.check,
            c.offset_s,
            c.fdt_delay_ms,
            out.spread_ms,
            out.obj_rel_first_ms.abs(),
            if c.obj_gap_ms >= 0 { "after" } else { "before" },
            est_at_fdt,
            est_at_obj,
            expires,
            out.traces
        )
    };
    if expect_delivery && !out.delivered {
        return Err(format!("the object must be delivered (FDT unexpired on the sender's clock, or expiry checking disabled) but was not: {}", ctx()));
    }
    if !expect_delivery && out.any_writer {
        return Err(format!("the object is announced only by an FDT instance that is expired on the sender's clock, yet a writer saw callbacks: {}", ctx()));
    }
    // metamorphic: with SCT present the receiver's clock offset must not matter
    if c.sct && c.offset_s != 0 {
        let base = run_once(c, 0)?;
        if base.delivered != out.delivered || base.any_writer != out.any_writer {
            return Err(format!("with the sender-current-time extension present the outcome depends on the receiver clock offset: offset 0 -> delivered {}, offset {} s -> delivered {}; {}", base.delivered, c.offset_s, out.delivered, ctx()));
        }
    }
    let between = c.obj_gap_ms >= 0 && est_at_fdt < expires && est_at_obj > expires;
    info.nt(between || (c.offset_s.unsigned_abs() > c.duration_s));
    info.label_if(between, "expiry between FDT and object");
    info.label_if(c.offset_s.unsigned_abs() > c.duration_s, "|offset| > duration");
    info.label(if expect_delivery { "expect delivery" } else { "expect nothing" });
    info.label_if(!c.check, "check disabled");
    info.label_if(beyond_ntp, "check disabled and Expires beyond the NTP range");
    info.label_if(c.sct, "SCT present");
    info.label_if(c.sct && c.size % 2 == 0 && c.fdt_delay_ms % 2 == 1, "SCT-High only form of EXT_TIME");
    info.label_if(c.obj_gap_ms < 0, "object before FDT");
    info.label_if(out.spread_ms > 0, "FDT packets spread over time");
    info.label_if(out.spread_ms > 0 && c.obj_gap_ms >= 0 && est_at_obj > expires && est_at_obj - out.spread_ms < expires, "object expired only by the latest SCT of a paced FDT");
    info.label_if(out.spread_ms > 0 && est_at_fdt > expires && est_first < expires, "paced FDT expires while it is being received");
    Ok(info)
}

pub fn case_strategy() -> BoxedStrategy<Case> {
    let year = 31_557_600i64;
    (
        // (20 years: Expires lies beyond the 32-bit NTP second range; only meaningful with the check off)
        prop_oneof![4 => Just(5u64), 4 => Just(30), 4 => Just(3600), 12 => 3u64..200_000, 1 => Just(631_152_000u64)],
        any::<bool>(),
        prop_oneof![4 => Just(true), 1 => Just(false)],
        prop_oneof![
            2 => Just(0i64),
            2 => -100i64..100,
            2 => -200_000i64..200_000,
            1 => (-40 * year)..(40 * year),
            1 => prop_oneof![Just(-40 * year), Just(40 * year), Just(year), Just(-year)],
        ],
        prop_oneof![Just(0u64), 0u64..5000, 0u64..400_000_000],
        // gap relative to the FDT, biased around the expiry instant by the map below
        (any::<bool>(), 0u64..400_000_000, -10_000i64..10_000, 0u8..4),
        crate::gen::scheme_strategy(),
        any::<bool>(),
        prop_oneof![Just(0usize), Just(16), Just(100)],
        prop_oneof![3 => Just(0u64), 1 => 1u64..200, 2 => 200u64..3000],
    )
        .prop_map(|(duration_s, sct, check, offset_s, fdt_delay_ms, (before, gap, around, mode), scheme, inband_fti, size, fdt_step_ms)| {
            let expires_ms = duration_s as i64 * 1000;
            // where the estimate stands at FDT arrival
            let est_f: i64 = if sct { 0 } else { offset_s.saturating_mul(1000).saturating_add(fdt_delay_ms as i64) };
            let obj_gap_ms: i64 = match mode {
                // just around the expiry instant as seen by the receiver
                0 | 1 => (expires_ms - est_f).saturating_add(around).max(0),
                2 => (gap % 100_000) as i64,
                _ => gap as i64,
            };
            let obj_gap_ms = if before { -(obj_gap_ms % 60_000) } else { obj_gap_ms };
            let size = if scheme == Scheme::Raptor { size / 16 * 16 * 4 } else { size };
            let check = if duration_s >= 600_000_000 { false } else { check };
            Case { duration_s, sct, check, offset_s, fdt_delay_ms, obj_gap_ms, scheme, inband_fti, size, fdt_step_ms }
        })
        .boxed()
}

// ------------------------------------------------------------------------------------------
// two instances: the receiver holds an older instance (announcing A only) and a newer one
// (announcing B only), both received while valid; each object is judged by the instance that
// announces it

#[derive(Debug, Clone, Serialize, Deserialize)]
pub struct TwoCase {
    pub duration_s: u64,
    /// second publication this many seconds after the first
    pub second_after_s: u64,
    pub sct: bool,
    pub check: bool,
    pub offset_s: i64,
    /// arrival of A's and B's packets, ms after the first publication (sender clock)
    pub objects_at_ms: u64,
}

pub fn run_two(c: &TwoCase) -> CaseResult {
    let mut info = CaseInfo::new();
    let mut sender = SenderSpec::simple(OtiSpec { scheme: Scheme::NoCode, e: 4096, b: 8, parity: 0, inband_fti: true, al: 1, nsub: 1 });
    sender.fdt_duration_s = c.duration_s;
    sender.inband_sct = c.sct;
    let mut drv = SenderDriver::new(&sender)?;
    let mut oa = ObjSpec::simple(40, 191);
    oa.location = "file:///c19/a".into();
    let mut ob = ObjSpec::simple(40, 192);
    ob.location = "file:///c19/b".into();
    let (toi_a, bytes_a) = drv.add(&oa)?;
    drv.publish()?;
    drv.drain(10_000)?;
    let first_len = drv.log.len();
    drv.advance(Duration::from_secs(c.second_after_s));
    // A has been sent once and is gone from the sender: the second instance announces B only
    let (toi_b, bytes_b) = drv.add(&ob)?;
    drv.publish()?;
    drv.drain(10_000)?;
    let (mut fdt1, mut fdt2, mut a, mut b) = (vec![], vec![], vec![], vec![]);
    for (i, r) in drv.log.iter().enumerate() {
        if let Some((bytes, d)) = r.pkt() {
            if d.lct.toi == 0 {
                if i < first_len { fdt1.push(bytes.clone()) } else { fdt2.push(bytes.clone()) }
            } else if d.lct.toi == toi_a {
                a.push(bytes.clone());
            } else if d.lct.toi == toi_b {
                b.push(bytes.clone());
            }
        }
    }
    if fdt1.is_empty() || fdt2.is_empty() || a.is_empty() || b.is_empty() {
        return Err("HARNESS: the two-instance session did not produce both instances and both objects".into());
    }
    let s0 = t0();
    let rclock = |sender_ms: u64| shift(s0, c.offset_s as i128 * 1000 + sender_ms as i128);
    let spec = RxSpec { expiry_check: c.check, cleanup_each_push: true, ..RxSpec::default_once() };
    let mut rx = Rx::new(&spec, Faults::none());
    for p in &fdt1 {
        rx.push(p, rclock(0));
    }
    for p in &fdt2 {
        rx.push(p, rclock(c.second_after_s * 1000));
    }
    let at = c.objects_at_ms.max(c.second_after_s * 1000);
    for p in &a {
        rx.push(p, rclock(at));
    }
    for p in &b {
        rx.push(p, rclock(at));
    }
    let ws = rx.mon.writers();
    drop(rx);
    // estimate of the sender clock at `at` (ms after the first publication)
    let est: i128 = if c.sct { at as i128 } else { at as i128 + c.offset_s as i128 * 1000 };
    let exp1: i128 = c.duration_s as i128 * 1000;
    let exp2: i128 = (c.second_after_s + c.duration_s) as i128 * 1000;
    // both instances must have been valid on arrival (estimate at their own arrival)
    let est_f1: i128 = if c.sct { 0 } else { c.offset_s as i128 * 1000 };
    let est_f2: i128 = if c.sct { c.second_after_s as i128 * 1000 } else { c.second_after_s as i128 * 1000 + c.offset_s as i128 * 1000 };
    if c.check && (est_f1 >= exp1 - 2000 || est_f2 >= exp2 - 2000 || est_f1 < -(1 << 40)) {
        return Ok(CaseInfo::excluded("domain: an instance is not clearly valid on arrival"));
    }
    if (est - exp1).abs() <= 2000 || (est - exp2).abs() <= 2000 {
        return Ok(CaseInfo::excluded("domain: within +-2 s of Expires (granularity excluded by the property)"));
    }
    for (name, toi, bytes, exp) in [("A (announced by the older instance only)", toi_a, &bytes_a, exp1), ("B (announced by the newer instance only)", toi_b, &bytes_b, exp2)] {
        let mine: Vec<_> = ws.iter().filter(|w| w.toi == toi).collect();
        let expect = !c.check || est < exp;
        let delivered = mine.iter().any(|w| w.completed() && w.data == **bytes);
        let ctx = format!(
            "duration {} s, second publication after {} s, SCT {}, expiry check {}, receiver clock offset {} s, objects arrive {} ms after the first publication (estimate of the sender clock {} ms; instance 1 expires at {} ms, instance 2 at {} ms); writers {:?}",
            c.duration_s, c.second_after_s, c.sct, c.check, c.offset_s, at, est, exp1, exp2, mine.iter().map(|w| w.trace()).collect::<Vec<_>>()
        );
        if expect && !delivered {
            return Err(format!("object {} must be delivered (its instance is unexpired on the sender's clock, or the check is off) but was not: {}", name, ctx));
        }
        if !expect && !mine.is_empty() {
            return Err(format!("object {} is announced only by an instance that is expired on the sender's clock, yet a writer saw callbacks: {}", name, ctx));
        }
    }
    let split = c.check && est >= exp1 && est < exp2;
    info.nt(split);
    info.label_if(split, "older instance expired, newer still valid");
    info.label_if(c.check && est >= exp2, "both expired");
    info.label_if(!c.check || est < exp1, "both valid or check off");
    info.label_if(c.sct, "SCT present");
    Ok(info)
}

fn two_strategy() -> BoxedStrategy<TwoCase> {
    (
        prop_oneof![Just(10u64), Just(30), Just(3600), 8u64..5000],
        any::<bool>(),
        prop_oneof![5 => Just(true), 1 => Just(false)],
        prop_oneof![3 => Just(0i64), 2 => -3i64..3, 2 => -100_000i64..100_000, 1 => Just(31_557_600i64 * 10), 1 => Just(-31_557_600i64 * 10)],
        (0u64..1000, 0u8..4, -8000i64..8000),
    )
        .prop_map(|(duration_s, sct, check, offset_s, (frac, mode, around))| {
            // the second publication falls inside the validity of the first one
            let second_after_s = 3 + frac * duration_s.saturating_sub(6) / 1000;
            let est_shift: i64 = if sct { 0 } else { offset_s.saturating_mul(1000) };
            let exp1 = duration_s as i64 * 1000;
            let exp2 = (second_after_s + duration_s) as i64 * 1000;
            let at: i64 = match mode {
                0 | 1 => exp1 - est_shift + around + 4000, // shortly after the older instance expired
                2 => (exp1 + exp2) / 2 - est_shift,        // between the two expiries
                _ => exp2 - est_shift + around + 4000,     // around the newer one's expiry
            };
            // without SCT only offsets that keep both instances valid on arrival are useful
            let offset_s = if sct { offset_s } else { offset_s.clamp(-(2 * duration_s as i64), 2) };
            TwoCase { duration_s, second_after_s, sct, check, offset_s, objects_at_ms: at.max(0) as u64 }
        })
        .boxed()
}

pub fn run(eng: &mut Engine) {
    eng.assume("receiver's estimate of the sender clock at time t: t - (arrival of the FDT instance - its SCT) when the instance carried EXT_TIME, else t; an instance is unexpired while estimate < Expires; cases within 2 s of Expires are excluded as the property says");
    eng.assume("decisive instants: the arrival of the FDT instance and, when the object comes later, the arrival of its first packet (that is when delivery starts); the whole object is pushed at one instant");
    let tier = eng.tier;
    eng.generated(
        PartCfg::new(
            "expiry",
            "one FDT instance (duration 3 s..55 h, SCT present/absent) and one object (5 schemes, in-band/FDT-only OTI, empty/small); receiver clock offset 0 / seconds / days / +-40 years, FDT transit delay 0..111 h, object before or after the FDT with gaps biased around the expiry instant; expiry check on/off; oracle = delivered iff unexpired on the estimated sender clock (no writer callback at all otherwise) + metamorphic independence of the offset when SCT is present; non-trivial = expiry falls between FDT and object arrival or |offset| > duration; distinct by case",
            tier.pick(400_000, 6_000_000),
        ),
        case_strategy,
        run_case,
    );
    eng.generated(
        PartCfg::new(
            "two-instances",
            "the receiver holds two instances received while valid: the older announces object A only, the newer (published 3 s .. duration-3 s later) object B only; both objects arrive at one instant placed shortly after the older instance expired, between the two expiries, or around the newer one's; SCT present/absent, clock offsets, check on/off; each object must be delivered iff ITS instance is unexpired on the estimated sender clock, and see no writer callback otherwise; non-trivial = the older instance is expired and the newer still valid; distinct by case",
            tier.pick(60_000, 1_500_000),
        ),
        two_strategy,
        run_two,
    );
}

pub fn replay(part: &str, case: &Value) -> Option<CaseResult> {
    match part {
        "expiry" | "pinned" => Some(run_case(&serde_json::from_value(case.clone()).ok()?)),
        "two-instances" => Some(run_two(&serde_json::from_value(case.clone()).ok()?)),
        _ => None,
    }
}
