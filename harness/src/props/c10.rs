//! C10 FDT instances list exactly the announced objects, survive XML, fresh id/expiry.

use super::c11::{known_skip, raptor_panic};
use crate::drive::*;
use crate::engine::*;
use crate::gen;
use crate::monitor::Faults;
use crate::ops::*;
use crate::rfc::fdt::{CacheCtl, FdtDoc, FdtFile};
use crate::rfc::fti::Scheme;
use crate::rfc::ntp;
use crate::spec::*;
use crate::stream::{self, FdtInst};
use base64::Engine as _;
use proptest::prelude::*;
use serde_json::Value;
use std::cell::RefCell;
use std::collections::{BTreeMap, BTreeSet};
use std::io::{BufRead, BufReader, Write};
use std::process::{Child, ChildStdin, ChildStdout, Command, Stdio};
use std::sync::atomic::{AtomicU64, Ordering};
use std::sync::Mutex;
use std::time::{Duration, SystemTime, UNIX_EPOCH};

// ------------------------------------------------------------------------------------------
// expat oracle (python3 stdlib) through a pipe, one process per worker thread

struct Expat {
    _child: Child,
    stdin: ChildStdin,
    stdout: BufReader<ChildStdout>,
}

thread_local! {
    static EXPAT: RefCell<Option<Option<Expat>>> = const { RefCell::new(None) };
}

pub static EXPAT_DOCS: AtomicU64 = AtomicU64::new(0);
pub static EXPAT_MISSING: AtomicU64 = AtomicU64::new(0);

fn expat_parse(doc: &[u8]) -> Option<Result<Value, String>> {
    EXPAT.with(|e| {
        let mut g = e.borrow_mut();
        if g.is_none() {
            let script = format!("{}/tools/xmlcheck.py", crate::engine::verif_dir());
            let child = Command::new("python3").arg(&script).stdin(Stdio::piped()).stdout(Stdio::piped()).stderr(Stdio::null()).spawn();
            *g = Some(match child {
                Ok(mut c) => {
                    let stdin = c.stdin.take();
                    let stdout = c.stdout.take();
                    match (stdin, stdout) {
                        (Some(i), Some(o)) => Some(Expat { _child: c, stdin: i, stdout: BufReader::new(o) }),
                        _ => None,
                    }
                }
                Err(_) => None,
            });
        }
        let ex = match g.as_mut().unwrap() {
            Some(x) => x,
            None => {
                EXPAT_MISSING.fetch_add(1, Ordering::Relaxed);
                return None;
            }
        };
        let hex: String = doc.iter().map(|b| format!("{:02x}", b)).collect();
        if writeln!(ex.stdin, "{}", hex).is_err() || ex.stdin.flush().is_err() {
            EXPAT_MISSING.fetch_add(1, Ordering::Relaxed);
            return None;
        }
        let mut line = String::new();
        if ex.stdout.read_line(&mut line).unwrap_or(0) == 0 {
            EXPAT_MISSING.fetch_add(1, Ordering::Relaxed);
            return None;
        }
        EXPAT_DOCS.fetch_add(1, Ordering::Relaxed);
        let v: Value = match serde_json::from_str(&line) {
            Ok(v) => v,
            Err(e) => return Some(Err(format!("xmlcheck.py answered garbage: {}", e))),
        };
        if v["ok"].as_bool() == Some(true) {
            Some(Ok(v))
        } else {
            Some(Err(v["error"].as_str().unwrap_or("?").to_string()))
        }
    })
}

/// documents kept for the xmllint --schema batch at the end of the run
pub static XSD_SAMPLES: Mutex<Vec<(Vec<u8>, String)>> = Mutex::new(Vec::new());

// ------------------------------------------------------------------------------------------

fn ntp_secs(t: SystemTime) -> u64 {
    t.duration_since(UNIX_EPOCH).map(|d| d.as_secs()).unwrap_or(0) + ntp::NTP_UNIX_OFFSET
}

#[derive(Debug, Clone)]
enum PubKind {
    Explicit(usize),
    /// ObjectsBeingTransferred: triggered by the StartTransfer event at this log index
    AutoStart(usize),
    /// renewal / initial publication inside read(): first packet index
    AutoRead(usize),
}

/// the model's live set at a log position
fn live_set(c: &OpCase, run: &OpsRun, at: usize, inclusive_start: bool) -> BTreeSet<u128> {
    let log = &run.drv.log;
    let mut set = BTreeSet::new();
    for a in &run.added {
        if a.add_idx > at {
            continue;
        }
        let starts = log[..=at.min(log.len() - 1)].iter().enumerate().filter(|(i, r)| matches!(r.kind, RecKind::Start(t) if t == a.toi) && (*i < at || inclusive_start)).count();
        let stops = log[..at.min(log.len())].iter().filter(|r| matches!(r.kind, RecKind::Stop(t) if t == a.toi)).count();
        let removed = a.removed_idx.map(|r| r < at).unwrap_or(false);
        if c.sender.full_fdt {
            let finished = a.spec.carousel.is_none() && stops >= a.spec.max_transfer_count.max(1) as usize;
            if !removed && !finished {
                set.insert(a.toi);
            }
        } else if starts > stops && !removed {
            // being transferred and still known to the sender (a removed object may finish its
            // transfer but is no longer announced)
            set.insert(a.toi);
        }
    }
    set
}

fn expected_cache(a: &Added, publish_candidates: &[SystemTime]) -> Vec<Option<CacheCtl>> {
    match a.spec.cache {
        None => vec![None],
        Some(CacheSpec::NoCache) => vec![Some(CacheCtl::NoCache)],
        Some(CacheSpec::MaxStale) => vec![Some(CacheCtl::MaxStale)],
        Some(CacheSpec::ExpiresAtOffsetSecs(s)) => vec![Some(CacheCtl::Expires(ntp_secs(at_ms(s * 1000))))],
        Some(CacheSpec::ExpiresSecs(d)) => publish_candidates.iter().map(|p| Some(CacheCtl::Expires(ntp_secs(*p + Duration::from_secs(d))))).collect(),
    }
}

fn check_file(c: &OpCase, a: &Added, f: &FdtFile, doc: &FdtDoc, candidates: &[SystemTime]) -> Result<(), String> {
    let url = url::Url::parse(&a.spec.location).map_err(|e| e.to_string())?;
    let bad = |what: &str, got: String, want: String| format!("File TOI {}: {} is {} but the object was given {}", a.toi, what, got, want);
    if f.content_location != url.as_str() {
        return Err(bad("Content-Location", format!("{:?}", f.content_location), format!("{:?}", url.as_str())));
    }
    if f.content_length != Some(a.bytes.len() as u64) {
        return Err(bad("Content-Length", format!("{:?}", f.content_length), a.bytes.len().to_string()));
    }
    if f.transfer_length != Some(a.transfer_len) {
        return Err(bad("Transfer-Length", format!("{:?}", f.transfer_length), a.transfer_len.to_string()));
    }
    if f.content_type.as_deref() != Some(a.spec.content_type.as_str()) {
        return Err(bad("Content-Type", format!("{:?}", f.content_type), format!("{:?}", a.spec.content_type)));
    }
    let want_enc = match a.spec.cenc {
        1 => Some("zlib"),
        2 => Some("deflate"),
        3 => Some("gzip"),
        _ => None,
    };
    // "null" spelled out is equivalent to absence
    let got_enc = f.content_encoding.as_deref().filter(|e| *e != "null");
    if got_enc != want_enc {
        return Err(bad("Content-Encoding", format!("{:?}", f.content_encoding), format!("{:?}", want_enc)));
    }
    let want_md5 = if a.spec.md5 { Some(base64::engine::general_purpose::STANDARD.encode(md5::compute(&a.bytes).0)) } else { None };
    if f.content_md5 != want_md5 {
        return Err(bad("Content-MD5", format!("{:?}", f.content_md5), format!("{:?}", want_md5)));
    }
    if f.etag != a.spec.etag {
        return Err(bad("File-ETag", format!("{:?}", f.etag), format!("{:?}", a.spec.etag)));
    }
    let want_groups = a.spec.groups.clone().unwrap_or_default();
    if f.groups != want_groups {
        return Err(bad("Group list", format!("{:?}", f.groups), format!("{:?}", want_groups)));
    }
    let cands = expected_cache(a, candidates);
    if !cands.contains(&f.cache) {
        return Err(bad("Cache-Control", format!("{:?}", f.cache), format!("{:?} (one of {:?})", a.spec.cache, cands.iter().take(3).collect::<Vec<_>>())));
    }
    // FEC OTI: the file's own attributes, else the instance's
    let w = stream::wire_oti_from_fdt(doc, f).map_err(|e| format!("File TOI {}: {}", a.toi, e))?.ok_or(format!("File TOI {}: no usable FEC OTI on the File or on the FDT-Instance", a.toi))?;
    let eff = &a.eff;
    if w.scheme != eff.scheme || w.e != eff.e || w.b != Some(eff.b) {
        return Err(bad("FEC OTI (encoding id, symbol length, max source block length)", format!("{:?} E={} B={:?}", w.scheme, w.e, w.b), format!("{:?} E={} B={}", eff.scheme, eff.e, eff.b)));
    }
    if matches!(eff.scheme, Scheme::Rs28 | Scheme::Rs28Us) && w.max_n != Some(eff.b + eff.parity) {
        return Err(bad("FEC-OTI-Max-Number-of-Encoding-Symbols", format!("{:?}", w.max_n), (eff.b + eff.parity).to_string()));
    }
    if matches!(eff.scheme, Scheme::RaptorQ | Scheme::Raptor) {
        let p = super::common::ref_partition(eff, a.transfer_len).ok_or("partition")?;
        if w.z != Some(p.n.max(1) as u32) || w.al != eff.al || w.nsub != eff.nsub {
            return Err(bad("scheme specific info (Z, N, Al)", format!("Z={:?} N={} Al={}", w.z, w.nsub, w.al), format!("Z={} N={} Al={}", p.n.max(1), eff.nsub, eff.al)));
        }
    }
    let _ = c;
    Ok(())
}

/// compare the expat view with the harness' own view of the same document
fn expat_agrees(v: &Value, doc: &FdtDoc) -> Result<(), String> {
    if v["root"].as_str() != Some("FDT-Instance") {
        return Err(format!("expat sees root {:?}", v["root"]));
    }
    let files = v["files"].as_array().cloned().unwrap_or_default();
    if files.len() != doc.files.len() {
        return Err(format!("expat sees {} File elements, the harness reader {}", files.len(), doc.files.len()));
    }
    for (ef, f) in files.iter().zip(&doc.files) {
        let a = &ef["attrs"];
        if a["TOI"].as_str() != Some(f.toi_raw.as_str()) || a["Content-Location"].as_str() != Some(f.content_location.as_str()) {
            return Err(format!("expat and the harness reader disagree on a File: {:?} vs TOI {} {:?}", a, f.toi_raw, f.content_location));
        }
        if a["Content-Type"].as_str() != f.content_type.as_deref() || a["File-ETag"].as_str() != f.etag.as_deref() {
            return Err(format!("expat and the harness reader disagree on Content-Type/ETag of TOI {}", f.toi));
        }
        let g: Vec<String> = ef["groups"].as_array().map(|x| x.iter().filter_map(|s| s.as_str().map(|s| s.to_string())).collect()).unwrap_or_default();
        if g != f.groups {
            return Err(format!("expat and the harness reader disagree on the groups of TOI {}: {:?} vs {:?}", f.toi, g, f.groups));
        }
    }
    let g: Vec<String> = v["groups"].as_array().map(|x| x.iter().filter_map(|s| s.as_str().map(|s| s.to_string())).collect()).unwrap_or_default();
    if g != doc.groups {
        return Err(format!("expat and the harness reader disagree on the instance groups: {:?} vs {:?}", g, doc.groups));
    }
    Ok(())
}

pub fn check(c: &OpCase, run: &OpsRun, info: &mut CaseInfo, supersede: bool) -> Result<(), String> {
    if let Some((toi, at)) = run.remove_refused.first() {
        return Err(format!("remove_object({}) answered false (log #{}) although the object had been added, not removed, and had not finished its transfers: later instances keep listing a removed object", toi, at));
    }
    let log = &run.drv.log;
    let an = stream::analyse(log);
    if let Some(e) = an.errors.first() {
        return Err(format!("stream: {}", e));
    }
    let insts: Vec<&FdtInst> = an.fdt_by_first_idx();
    // (3) ids: sequential modulo 2^20 from fdt_start_id; one id = one content
    let mut by_id: BTreeMap<u32, &FdtInst> = BTreeMap::new();
    for (j, f) in insts.iter().enumerate() {
        let want = (c.sender.fdt_start_id as u64 + j as u64) % (1 << 20);
        if f.id as u64 != want {
            return Err(format!("FDT instance #{} in emission order carries instance id {}, expected {} (fdt_start_id {} + {} publications, modulo 2^20)", j, f.id, want, c.sender.fdt_start_id, j));
        }
        if let Some(prev) = by_id.get(&f.id) {
            if prev.xml != f.xml {
                return Err(format!("FDT instance id {} denotes two different contents within {} publications", f.id, insts.len()));
            }
        }
        by_id.insert(f.id, f);
        let v = if c.sender.rfc3926 { 1 } else { 2 };
        if f.version != v {
            return Err(format!("FDT instance {}: EXT_FDT version {} for profile {}", f.id, f.version, if c.sender.rfc3926 { "RFC 3926" } else { "RFC 6726" }));
        }
    }
    // publication events known to the harness, in order
    let mut events: Vec<PubKind> = vec![];
    {
        let mut ev: Vec<(usize, PubKind)> = run.publishes.iter().filter(|p| p.ok).map(|p| (p.idx, PubKind::Explicit(p.idx))).collect();
        if !c.sender.full_fdt {
            for (i, r) in log.iter().enumerate() {
                if let RecKind::Start(_) = r.kind {
                    ev.push((i, PubKind::AutoStart(i)));
                }
            }
        }
        ev.sort_by_key(|e| e.0);
        events.extend(ev.into_iter().map(|e| e.1));
    }
    let mut next_ev = 0usize;
    let mut crossed_wrap = false;
    let mut auto_pub = false;
    let mut needs_escape = false;
    let mut prev_first = 0usize;
    for f in &insts {
        if f.id == 0 && c.sender.fdt_start_id != 0 {
            crossed_wrap = true;
        }
        // which publication produced it?
        let kind = if next_ev < events.len() {
            let idx = match &events[next_ev] {
                PubKind::Explicit(i) | PubKind::AutoStart(i) | PubKind::AutoRead(i) => *i,
            };
            if idx < f.first_idx {
                next_ev += 1;
                events[next_ev - 1].clone()
            } else {
                PubKind::AutoRead(f.first_idx)
            }
        } else {
            PubKind::AutoRead(f.first_idx)
        };
        let doc = match (&f.doc, f.complete_idx) {
            (Some(d), _) => d,
            (None, None) => continue, // not completely emitted inside the horizon
            (None, Some(_)) => return Err(format!("FDT instance {} is not readable: {:?}", f.id, f.errors)),
        };
        let xml = f.xml.as_ref().unwrap();
        if let Some(e) = f.errors.first() {
            return Err(format!("FDT instance {}: {}", f.id, e));
        }
        // well-formedness for an independent parser, and agreement of the two readers
        match expat_parse(xml) {
            Some(Ok(v)) => expat_agrees(&v, doc).map_err(|e| format!("FDT instance {}: {} ; document: {}", f.id, e, String::from_utf8_lossy(xml)))?,
            Some(Err(e)) => return Err(format!("FDT instance {} is not well-formed XML for expat: {} ; document: {}", f.id, e, String::from_utf8_lossy(xml))),
            None => {}
        }
        // live set
        let (at, inclusive, candidates): (usize, bool, Vec<SystemTime>) = match &kind {
            PubKind::Explicit(i) => (*i, false, vec![log[*i].t]),
            PubKind::AutoStart(i) => (*i, true, vec![log[*i].t]),
            PubKind::AutoRead(i) => {
                auto_pub = true;
                // published inside one of the read() calls since the previous instance appeared
                let cands: Vec<SystemTime> = run.polls.iter().filter(|p| p.idx >= prev_first && p.idx <= *i).map(|p| p.time).collect();
                (*i, false, if cands.is_empty() { vec![log[*i].t] } else { cands })
            }
        };
        let want = live_set(c, run, at, inclusive);
        let got: BTreeSet<u128> = doc.files.iter().map(|x| x.toi).collect();
        if got.len() != doc.files.len() {
            return Err(format!("FDT instance {} lists a TOI twice: {:?}", f.id, doc.files.iter().map(|x| x.toi).collect::<Vec<_>>()));
        }
        if got != want {
            return Err(format!(
                "FDT instance {} ({:?}, {}) lists TOIs {:?} but the objects announced at that moment are {:?}",
                f.id,
                kind,
                if c.sender.full_fdt { "FullFDT: added, not removed, not finished" } else { "ObjectsBeingTransferred: between StartTransfer and StopTransfer" },
                got,
                want
            ));
        }
        for file in &doc.files {
            let a = run.added.iter().find(|a| a.toi == file.toi).unwrap();
            check_file(c, a, file, doc, &candidates).map_err(|e| format!("FDT instance {}: {}", f.id, e))?;
            if a.spec.location.contains('&') || a.spec.content_type.contains(['<', '&', '"']) || a.spec.etag.as_ref().map(|e| e.contains(['<', '&', '"', '\''])).unwrap_or(false) || a.spec.groups.as_ref().map(|g| g.iter().any(|x| x.contains(['<', '&']))).unwrap_or(false) {
                needs_escape = true;
            }
        }
        // instance level: groups, FullFDT flag, Complete, Expires
        let want_groups = c.sender.groups.clone().unwrap_or_default();
        if doc.groups != want_groups {
            return Err(format!("FDT instance {}: instance-level groups {:?}, the sender was configured with {:?}", f.id, doc.groups, want_groups));
        }
        if c.sender.groups.as_ref().map(|g| g.iter().any(|x| x.contains(['<', '&']))).unwrap_or(false) {
            needs_escape = true;
        }
        let ok_exp = candidates.iter().any(|p| doc.expires == ntp_secs(*p) + c.sender.fdt_duration_s);
        if !ok_exp {
            return Err(format!(
                "FDT instance {}: Expires = {} (NTP s); publish instant(s) {:?} (NTP s) + configured duration {} s do not give that",
                f.id,
                doc.expires,
                candidates.iter().take(4).map(|p| ntp_secs(*p)).collect::<Vec<_>>(),
                c.sender.fdt_duration_s
            ));
        }
        if let Some(sc) = run.set_complete_idx {
            if at > sc && doc.complete != Some(true) {
                return Err(format!("FDT instance {} was published after set_complete() but does not carry Complete=\"true\"", f.id));
            }
        }
        // the RFC 6726 schema requires at least one File element: empty listings are not sent to xmllint
        if !doc.files.is_empty() && XSD_SAMPLES.lock().map(|g| g.len() < 400).unwrap_or(false) && (needs_escape || doc.files.len() > 1) {
            if let Ok(mut g) = XSD_SAMPLES.lock() {
                g.push((xml.clone(), serde_json::to_string(c).unwrap_or_default()));
            }
        }
        prev_first = f.first_idx;
    }
    // the same instances as seen by flute's own receiver
    {
        let mut rx = Rx::new(&RxSpec { expiry_check: false, ..RxSpec::default_once() }, Faults::none());
        for r in log.iter() {
            if let Some((b, d)) = r.pkt() {
                if d.lct.toi == 0 {
                    rx.push(b, r.t);
                }
            }
        }
        let seen = rx.mon.fdts();
        drop(rx);
        let complete: Vec<&&FdtInst> = insts.iter().filter(|f| f.doc.is_some()).collect();
        let mut distinct: Vec<&[u8]> = vec![];
        for f in &complete {
            let x = f.xml.as_ref().unwrap().as_slice();
            if distinct.last().map(|l| *l != x).unwrap_or(true) {
                distinct.push(x);
            }
        }
        for x in &distinct {
            if !seen.iter().any(|s| s.xml.as_bytes() == *x) {
                return Err(format!("an FDT instance emitted by the sender was not received identically by flute's own receiver ({} received, {} emitted): {}", seen.len(), distinct.len(), String::from_utf8_lossy(x)));
            }
        }
    }
    // (4) supersede before expiry when polled at least every 250 ms
    if supersede {
        // "as long as the sender is polled": the longest interval without a read(), counted from the
        // start of the session and from every publish() as well
        let mut marks: Vec<SystemTime> = vec![t0()];
        marks.extend(run.polls.iter().map(|p| p.time));
        marks.sort();
        let mut max_step = marks.windows(2).map(|w| w[1].duration_since(w[0]).unwrap_or_default()).max().unwrap_or_default();
        for p in &run.publishes {
            let next = run.polls.iter().map(|x| x.time).filter(|t| *t >= p.time).min();
            match next {
                Some(n) => max_step = max_step.max(n.duration_since(p.time).unwrap_or_default()),
                None => max_step = Duration::from_secs(3600),
            }
        }
        let end = run.polls.last().map(|p| p.time).unwrap_or(t0());
        if max_step <= Duration::from_millis(250) {
            for (j, f) in insts.iter().enumerate() {
                let doc = match &f.doc {
                    Some(d) => d,
                    None => continue,
                };
                let x = UNIX_EPOCH + Duration::from_secs(doc.expires.saturating_sub(ntp::NTP_UNIX_OFFSET));
                let limit = if c.sender.fdt_duration_s > 30 { x } else { x + Duration::from_secs(1) + max_step };
                if end < limit + max_step {
                    continue; // the horizon ends before the deadline can be judged
                }
                let succ = insts.iter().skip(j + 1).find(|s| s.complete_idx.is_some());
                let ok = match succ {
                    Some(s) => log[s.complete_idx.unwrap()].t <= limit,
                    None => false,
                };
                if !ok {
                    return Err(format!(
                        "FDT instance {} expires at {:?} (duration {} s) but no successor was completely emitted by {:?} although the sender was polled every {:?} until {:?}",
                        f.id,
                        x.duration_since(t0()).ok(),
                        c.sender.fdt_duration_s,
                        limit.duration_since(t0()).ok(),
                        max_step,
                        end.duration_since(t0()).ok()
                    ));
                }
                info.label("supersede checked");
            }
        }
    }
    let removed_before_publish = run.added.iter().any(|a| a.removed_idx.map(|r| run.publishes.iter().any(|p| p.idx > r)).unwrap_or(false));
    info.nt(removed_before_publish || needs_escape || crossed_wrap || auto_pub);
    info.label_if(removed_before_publish, "remove before a later publish");
    info.label_if(needs_escape, "string needing XML escaping");
    info.label_if(crossed_wrap, "instance id wrapped");
    info.label_if(auto_pub, "automatic publication");
    info.label(format!("instances={}", insts.len().min(9)));
    Ok(())
}

pub fn run_case(c: &OpCase, known: &dyn Fn(&str) -> bool, supersede: bool) -> CaseResult {
    if let Some(k) = known_skip(c, known) {
        return Ok(CaseInfo::excluded(k));
    }
    let run = match caught(|| run_ops(c)) {
        Ok(r) => r?,
        Err(p) if raptor_panic(c, known, &p) => return Ok(CaseInfo::excluded("raptor-small-block")),
        Err(p) => return Err(format!("sender panicked: {}", p)),
    };
    if trace_enabled() {
        crate::say!("{}", dump(&run.drv.log));
    }
    let mut info = CaseInfo::new();
    check(c, &run, &mut info, supersede)?;
    Ok(info)
}

pub fn strategy(tier: Tier) -> BoxedStrategy<OpCase> {
    let obj = gen::ObjOpts { max_size: 300, allow_stream: false, rich_meta: true, ..Default::default() };
    ops_strategy(OpsOpts { max_ops: tier.pick(30, 40), obj, timing: false, removal: true, set_complete: true, tail_rounds: 5, tail_step_us: 400_000, max_transfers: 2, ..Default::default() })
}

/// polling schedules for the supersede rule: steps <= 250 ms, horizon beyond a few expiries
pub fn supersede_strategy() -> BoxedStrategy<OpCase> {
    let obj = gen::ObjOpts { max_size: 100, allow_stream: false, rich_meta: false, allow_cenc: false, ..Default::default() };
    (ops_strategy(OpsOpts { max_ops: 4, obj, timing: false, removal: false, tail_rounds: 0, ..Default::default() }), prop_oneof![Just(1u64), Just(2), Just(5), Just(10), Just(11), Just(30), Just(31), 1u64..45], proptest::collection::vec(prop_oneof![Just(250_000u64), Just(100_000), 1_000u64..250_000], 8), any::<bool>(), prop_oneof![3 => Just(false), 1 => Just(true)])
        .prop_map(|(mut c, dur, steps, carousel, complete)| {
            c.sender.fdt_duration_s = dur;
            // a complete FDT (set_complete before the publication) must be renewed like any other
            if complete {
                c.ops.push(Op::SetComplete);
            }
            // keep an object alive over the horizon so that the session is not idle
            for op in c.ops.iter_mut() {
                if let Op::Add(o) = op {
                    if carousel {
                        o.carousel = Some(CarouselSpec::DelayMs(700));
                    }
                }
            }
            c.ops.push(Op::Publish);
            let horizon_us = (dur * 3 + 4) * 1_000_000;
            let mut t = 0u64;
            let mut k = 0usize;
            while t < horizon_us {
                c.ops.push(Op::Drain);
                let s = steps[k % steps.len()];
                c.ops.push(Op::Advance(s));
                t += s;
                k += 1;
            }
            c.ops.push(Op::Drain);
            c
        })
        .boxed()
}

/// runs that cross the 2^20 instance id wrap
pub fn wrap_strategy() -> BoxedStrategy<OpCase> {
    (strategy(Tier::Quick), 0u32..6).prop_map(|(mut c, back)| {
        c.sender.fdt_start_id = (1 << 20) - 1 - back;
        c
    })
    .boxed()
}

fn xsd_batch(eng: &mut Engine) {
    let samples: Vec<(Vec<u8>, String)> = XSD_SAMPLES.lock().map(|g| g.clone()).unwrap_or_default();
    let xmllint = ["xmllint", "/root/miniconda/bin/xmllint", "/usr/bin/xmllint"].iter().find(|p| Command::new(p).arg("--version").stdout(Stdio::null()).stderr(Stdio::null()).status().map(|s| s.success()).unwrap_or(false)).map(|s| s.to_string());
    let xsd = "/repo/assets/xsd/FLUTE-FDT-3GPP-Main.xsd";
    let (xmllint, _) = match (xmllint, std::path::Path::new(xsd).exists()) {
        (Some(x), true) => (x, ()),
        _ => {
            eng.note("xmllint or the XSD not found: schema validation skipped (expat and the harness reader decide well-formedness)");
            eng.extra.insert("xsd_validated".into(), serde_json::json!(0));
            return;
        }
    };
    let dir = match tempfile::tempdir() {
        Ok(d) => d,
        Err(_) => return,
    };
    let mut files = vec![];
    for (i, (xml, _)) in samples.iter().enumerate() {
        let p = dir.path().join(format!("fdt{}.xml", i));
        if std::fs::write(&p, xml).is_ok() {
            files.push(p);
        }
    }
    let mut validated = 0;
    for chunk in files.chunks(50) {
        let out = Command::new(&xmllint).arg("--noout").arg("--schema").arg(xsd).args(chunk).output();
        if let Ok(o) = out {
            let err = String::from_utf8_lossy(&o.stderr).to_string();
            for (k, f) in chunk.iter().enumerate() {
                let name = f.to_string_lossy().to_string();
                if err.lines().any(|l| l.starts_with(&name) && l.contains("fails to validate")) || err.lines().any(|l| l.contains(&name) && l.contains("parser error")) {
                    let idx = files.iter().position(|x| x == f).unwrap_or(k);
                    let case: Value = serde_json::from_str(&samples[idx].1).unwrap_or(Value::Null);
                    let msg: String = err.lines().filter(|l| l.contains(&name)).take(4).collect::<Vec<_>>().join(" | ");
                    eng.violation("xsd", &case, &format!("an emitted FDT instance does not validate against FLUTE-FDT-3GPP-Main.xsd: {} ; document: {}", msg, String::from_utf8_lossy(&samples[idx].0)));
                    return;
                } else {
                    validated += 1;
                }
            }
        }
    }
    eng.extra.insert("xsd_validated".into(), serde_json::json!(validated));
    crate::say!("[C10:xsd] {} FDT instances validated with xmllint --schema", validated);
}

pub fn run(eng: &mut Engine) {
    eng.assume("metadata strings are restricted to what XML 1.0 attribute values and text carry unchanged: no C0 controls, no raw tab/newline (attribute-value normalisation), no leading/trailing blanks; quotes, & < >, non-ASCII and 100-300 character strings are included");
    eng.assume("model of the announced set - FullFDT: added, not removed, fewer StopTransfer events than max_transfer_count (or carousel); ObjectsBeingTransferred: between StartTransfer and StopTransfer; automatic publications (first read, renewal) are attributed to the read() that first emitted the instance");
    eng.assume("readers: the harness' own XML reader (rfc/xml.rs), python3 expat through tools/xmlcheck.py (skipped and reported if python3 is missing), xmllint --schema on a sample batch when available, and flute's own receiver");
    let tier = eng.tier;
    let known = super::c01::known_fn(eng);
    eng.generated(
        PartCfg::new(
            "listing",
            "operation sequences add / remove / publish / set_complete / read-n / drain / advance over objects with hostile-but-legal metadata strings, per-object OTI, all cache-control variants, groups, both publish modes, FDT cenc, any fdt_start_id; every completely emitted instance is reassembled by the reference receiver, read by two independent XML readers and compared with the model (exact TOI set, every attribute, Expires, ids +1 mod 2^20, Complete flag), and must arrive identically at flute's receiver; non-trivial = a remove before a later publish, a string needing escaping, an id wrap or an automatic publication; distinct by case",
            tier.pick(50_000, 1_000_000),
        ),
        move || strategy(tier),
        move |c| run_case(c, &known, false),
    );
    let known = super::c01::known_fn(eng);
    eng.generated(
        PartCfg::new("id-wrap", "the same sequences started 0-5 publications below 2^20 so that the instance id wraps", tier.pick(12_000, 250_000)),
        wrap_strategy,
        move |c| run_case(c, &known, false),
    );
    let known = super::c01::known_fn(eng);
    eng.generated(
        PartCfg::new(
            "supersede",
            "FDT durations 1-45 s, polled every 1-250 ms over three durations: the successor of an instance with Expires = X is completely emitted by X + 1 s + one poll step (strictly before X for durations above 30 s); listing rules as in [listing]",
            tier.pick(6_000, 100_000),
        )
        .limit_s(120),
        supersede_strategy,
        move |c| run_case(c, &known, true),
    );
    xsd_batch(eng);
    eng.extra.insert("expat_documents".into(), serde_json::json!(EXPAT_DOCS.load(Ordering::Relaxed)));
    if EXPAT_MISSING.load(Ordering::Relaxed) > 0 {
        eng.note(format!("python3 expat oracle unavailable for {} documents (harness reader only)", EXPAT_MISSING.load(Ordering::Relaxed)));
    }
}

pub fn replay(part: &str, case: &Value) -> Option<CaseResult> {
    match part {
        "listing" | "id-wrap" | "xsd" | "pinned" => Some(run_case(&serde_json::from_value(case.clone()).ok()?, &|_| false, false)),
        "supersede" => Some(run_case(&serde_json::from_value(case.clone()).ok()?, &|_| false, true)),
        _ => None,
    }
}
