//! C02 Loss recovery: any loss leaving k symbols per block still delivers the object.

use crate::chan::*;
use crate::drive::RxSpec;
use crate::engine::*;
use crate::monitor::Faults;
use proptest::prelude::*;
use serde::{Deserialize, Serialize};
use serde_json::{json, Value};

#[derive(Debug, Clone, Serialize, Deserialize)]
pub struct Case {
    pub sess: SessSpec,
    /// multiplicity of every packet of the session (0 = lost), relative order preserved
    pub mult: Vec<u8>,
}

pub fn delivered_of(mult: &[u8], n: usize) -> Vec<usize> {
    let mut v = vec![];
    for i in 0..n {
        for _ in 0..mult.get(i).copied().unwrap_or(1) {
            v.push(i);
        }
    }
    v
}

/// open finding 13: a close-object packet of an object with in-band FTI is delivered before any
/// FDT instance listing the object is complete
pub fn sig_close_before_fdt(ls: &LabeledSession, delivered: &[usize]) -> bool {
    for (pos, i) in delivered.iter().enumerate() {
        if let PktKind::Obj { obj, close: true, .. } = &ls.kinds[*i] {
            let toi = ls.objs[*obj].toi;
            let before = &delivered[..pos];
            let fr = ls.fdt_recoverable(before);
            let listed = ls.fdts.iter().enumerate().any(|(fi, f)| fr[fi] && f.lists.contains(&toi));
            if !listed {
                return true;
            }
        }
    }
    false
}

pub fn check(ls: &LabeledSession, delivered: &[usize], known: &dyn Fn(&str) -> bool) -> CaseResult {
    let mut info = CaseInfo::new();
    let rec = ls.recoverable(delivered);
    if rec.iter().any(|r| *r) {
        if known("close-flag-before-fdt") && sig_close_before_fdt(ls, delivered) {
            return Ok(CaseInfo::excluded("close-flag-before-fdt"));
        }
        if known("completed-registry-gc") && !ls.spec.sender.full_fdt && ls.spec.objs.len() >= 2 && ls.spec.objs.iter().any(|o| o.max_transfer_count > 1) {
            return Ok(CaseInfo::excluded("completed-registry-gc"));
        }
    }
    let d = deliver(ls, delivered, &[], &RxSpec::default_once(), Faults::none(), true)?;
    if let Some(e) = d.protocol_errors.first() {
        return Err(format!("object-writer protocol (C09 automaton): {}", e));
    }
    let lost_obj = ls.kinds.iter().enumerate().any(|(i, k)| matches!(k, PktKind::Obj { .. }) && !delivered.contains(&i));
    let last_missing = !delivered.contains(&(ls.packets.len() - 1));
    for (oi, o) in ls.objs.iter().enumerate() {
        if !rec[oi] {
            continue;
        }
        let ws: Vec<_> = d.writers.iter().filter(|w| w.toi == o.toi).collect();
        let done = ws.iter().filter(|w| w.completed()).count();
        let failed = ws.iter().any(|w| w.failed());
        let describe = || {
            let mut s = String::new();
            for (n, i) in delivered.iter().enumerate() {
                s.push_str(&match &ls.kinds[*i] {
                    PktKind::Fdt { inst, sbn, esi, .. } => format!("{}:FDT#{}({},{}) ", n, ls.fdts[*inst].id, sbn, esi),
                    PktKind::Obj { obj, transfer, sbn, esi, close, .. } => format!("{}:o{}t{}({},{}){} ", n, obj, transfer, sbn, esi, if *close { "B" } else { "" }),
                    PktKind::Other => format!("{}:? ", n),
                });
            }
            s
        };
        if done != 1 || failed {
            return Err(format!(
                "object {} (toi {}, {:?}, k per block {:?}, {} transfer(s)) is recoverable from the delivered packets (an FDT instance listing it and k symbols per block arrive) but {} copies completed, failed writer: {}; writers [{}]; delivered: {}",
                oi,
                o.toi,
                o.scheme,
                o.k,
                ls.spec.objs[oi].max_transfer_count,
                done,
                failed,
                ws.iter().map(|w| w.trace()).collect::<Vec<_>>().join(" | "),
                describe()
            ));
        }
        let w = ws.iter().find(|w| w.completed()).unwrap();
        if w.data != o.bytes {
            return Err(format!("object {} completed with wrong bytes ({} vs {}); delivered: {}", oi, w.data.len(), o.bytes.len(), describe()));
        }
        info.label("recoverable object delivered");
    }
    info.nt(lost_obj && (ls.at_threshold(delivered) || last_missing) && rec.iter().any(|r| *r));
    info.label_if(rec.iter().all(|r| !*r), "nothing recoverable");
    info.label_if(ls.at_threshold(delivered), "a block at its threshold");
    info.label_if(last_missing, "last packet lost");
    Ok(info)
}

pub fn run_case(c: &Case, known: &dyn Fn(&str) -> bool) -> CaseResult {
    let ls = match build_session(&c.sess) {
        Ok(l) => l,
        Err(e) => return Err(format!("HARNESS: cannot build the session: {}", e)),
    };
    let delivered = delivered_of(&c.mult, ls.packets.len());
    check(&ls, &delivered, known)
}

pub fn mult_strategy(len: usize) -> BoxedStrategy<Vec<u8>> {
    proptest::collection::vec(prop_oneof![3 => Just(1u8), 2 => Just(0u8), 1 => Just(2u8), 1 => Just(3u8)], len).boxed()
}

pub fn case_strategy(o: SmallOpts) -> BoxedStrategy<Case> {
    (small_session_strategy(o), proptest::collection::vec(prop_oneof![4 => Just(1u8), 3 => Just(0u8), 1 => Just(2u8)], 80), 0u8..4, any::<u16>())
        .prop_map(|(sess, mult, pattern, sel)| {
            let _ = (pattern, sel);
            Case { sess, mult }
        })
        .boxed()
}

pub fn run(eng: &mut Engine) {
    eng.assume("packets are labelled (FDT instance / object, SBN, ESI, source or repair, k per block) by the harness' own RFC decoder and partition");
    eng.assume("premise of the property evaluated by the harness: an FDT instance listing the object is recoverable (same per-block rule on its own blocks) and every block has k distinct ESIs (RS) / all k source ESIs (No-Code, Raptor, RaptorQ) over all transfers");
    let tier = eng.tier;
    let known = super::c01::known_fn(eng);
    let max_p = tier.pick(12usize, 15usize);
    let nsess = tier.pick(1200u64, 12000u64);
    let seed = eng.seed;
    let strat_opts = SmallOpts { max_symbols: 6, ..Default::default() };
    let k1 = known;
    eng.chunked(
        PartCfg::new(
            "subsets",
            format!(
                "{} small sessions drawn from the session generator (scheme x k<=6 x parity<=3 x 1-4 blocks equal/unequal x interleave 1-4 x in-band/FDT-only OTI x 1-2 transfers x FDT of 1-3 symbols); for every session with |P|<={} ALL 2^|P| loss subsets are delivered in order; non-trivial = an object packet is lost and (a block sits exactly at k or the last packet is lost) and the object is recoverable; distinct by construction (session, mask)",
                nsess, max_p
            ),
            nsess * 4096,
        )
        .limit_s(300),
        nsess,
        false,
        move |c, st| {
            let strat = small_session_strategy(strat_opts);
            let sess = sample(&strat, mix(seed, c));
            let ls = match build_session(&sess) {
                Ok(l) => l,
                Err(e) => return Err((json!({"sess": sess}), format!("HARNESS: cannot build session: {}", e))),
            };
            let n = ls.packets.len();
            if n > max_p || n == 0 {
                *st.labels.entry("session too long for exhaustive subsets".into()).or_insert(0) += 1;
                return Ok(());
            }
            *st.labels.entry(format!("|P|={}", n)).or_insert(0) += 1;
            for mask in 0u32..(1u32 << n) {
                let mult: Vec<u8> = (0..n).map(|i| ((mask >> i) & 1) as u8).collect();
                let delivered = delivered_of(&mult, n);
                match check(&ls, &delivered, &k1) {
                    Ok(info) => {
                        if let Some(k) = info.excluded {
                            *st.excluded.entry(k).or_insert(0) += 1;
                            continue;
                        }
                        st.evaluations += 1;
                        if info.nontrivial {
                            st.nontrivial_count += 1;
                            if st.samples.len() < 1 {
                                st.samples.push(json!({"sess": sess, "mult": mult}));
                            }
                        }
                    }
                    Err(m) => return Err((json!(Case { sess: sess.clone(), mult }), m)),
                }
            }
            Ok(())
        },
    );
    let known = super::c01::known_fn(eng);
    eng.generated(
        PartCfg::new(
            "sampled",
            "larger sessions (up to 24 symbols, two objects), each packet lost / kept / duplicated up to 3x, order preserved; non-trivial as in [subsets]; distinct by case",
            tier.pick(250_000, 4_000_000),
        ),
        || {
            (small_session_strategy(SmallOpts { max_symbols: 24, ..Default::default() }), proptest::collection::vec(prop_oneof![4 => Just(1u8), 3 => Just(0u8), 1 => Just(2u8), 1 => Just(3u8)], 120))
                .prop_map(|(sess, mult)| Case { sess, mult })
                .boxed()
        },
        move |c| run_case(c, &known),
    );
    let known = super::c01::known_fn(eng);
    eng.generated(
        PartCfg::new(
            "fdt-repeats",
            "second family: the clock advances between and after the object packets so that the FDT carousel repeats the instance; loss/duplication as in [sampled]; non-trivial as in [subsets]; distinct by case",
            tier.pick(150_000, 2_500_000),
        ),
        || {
            (small_session_strategy(SmallOpts { max_symbols: 12, allow_repeats: true, ..Default::default() }), proptest::collection::vec(prop_oneof![4 => Just(1u8), 3 => Just(0u8), 1 => Just(2u8)], 160))
                .prop_map(|(sess, mult)| Case { sess, mult })
                .boxed()
        },
        move |c| run_case(c, &known),
    );
}

pub fn replay(part: &str, case: &Value) -> Option<CaseResult> {
    match part {
        "subsets" | "sampled" | "fdt-repeats" | "pinned" => {
            let c: Case = serde_json::from_value(case.clone()).ok()?;
            Some(run_case(&c, &|_| false))
        }
        _ => None,
    }
}
