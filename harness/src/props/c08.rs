//! C08 Each transfer carries every source symbol once at RFC offsets; end flags last.

use super::common::*;
use crate::drive::*;
use crate::engine::*;
use crate::gen;
use crate::rfc::fti::Scheme;
use crate::rfc::rx::{decode_content, Assembler};
use crate::spec::*;
use crate::stream::{self, Analysis};
use proptest::prelude::*;
use serde::{Deserialize, Serialize};
use serde_json::Value;
use std::collections::{BTreeMap, BTreeSet};
use std::time::Duration;

#[derive(Debug, Clone, Serialize, Deserialize)]
pub struct Case {
    pub sender: SenderSpec,
    pub objs: Vec<ObjSpec>,
    /// remove object `.0` after `.1` of its packets have been emitted
    pub remove: Option<(usize, u32)>,
    /// idle step of the virtual clock in ms
    pub step_ms: u64,
    /// carousel objects are removed after this many completed transfers
    pub horizon: u32,
}

pub struct ObjFacts {
    pub spec: ObjSpec,
    pub eff: OtiSpec,
    pub toi: u128,
    pub bytes: Vec<u8>,
    pub transfer_len: u64,
    /// log index of the harness' remove operation
    pub removed_at: Option<usize>,
}

pub struct Outcome {
    pub drv: SenderDriver,
    pub facts: Vec<ObjFacts>,
    pub refused: Vec<(usize, String)>,
    pub close_pkt: Vec<u8>,
}

fn transfer_len_of(drv: &SenderDriver, toi: u128) -> u64 {
    drv.sender.get_objects_in_fdt().get(&toi).map(|o| o.transfer_length).unwrap_or(0)
}

/// drive the sender of a case to the end of all its transfers
pub fn drive(c: &Case) -> Result<Outcome, String> {
    let mut drv = SenderDriver::new(&c.sender)?;
    let mut facts = vec![];
    let mut refused = vec![];
    for (i, o) in c.objs.iter().enumerate() {
        match drv.add(o) {
            Ok((toi, bytes)) => {
                let tl = transfer_len_of(&drv, toi);
                facts.push(ObjFacts { spec: o.clone(), eff: effective_oti(&c.sender, o).clone(), toi, bytes, transfer_len: tl, removed_at: None });
            }
            Err(e) => refused.push((i, e)),
        }
    }
    // domain: the session's default OTI must be able to carry the FDT instance itself (FullFDT:
    // publish() says so; ObjectsBeingTransferred: the automatic publication fails silently)
    if let Ok(xml) = drv.sender.fdt_xml_data(drv.now) {
        let cap = c.sender.oti.to_oti().map(|o| o.max_transfer_length()).unwrap_or(0);
        if xml.len() + 64 > cap {
            return Err("publish: DOMAIN incompatible with the parameters of your OTI (FDT larger than the session OTI can carry)".into());
        }
    }
    if c.sender.full_fdt {
        drv.publish()?;
    }
    let mut sent: BTreeMap<u128, u32> = BTreeMap::new();
    let mut stops: BTreeMap<u128, u32> = BTreeMap::new();
    let mut polls = 0usize;
    let mut pkts = 0usize;
    let mut obj_pkts = 0usize;
    let mut seen_log = 0usize;
    let step = Duration::from_millis(c.step_ms.max(1));
    // packet budget: symbols of all transfers + FDT repetitions, generous
    let mut budget: usize = 2000;
    for f in &facts {
        let syms = (f.transfer_len as usize / f.eff.e.max(1) as usize + 2) * (1 + f.eff.parity as usize);
        budget += syms * (f.spec.max_transfer_count as usize + c.horizon as usize + 2) * 2;
    }
    budget *= 4;
    loop {
        let r = drv.read();
        // account new log entries
        while seen_log < drv.log.len() {
            match &drv.log[seen_log].kind {
                RecKind::Stop(t) => *stops.entry(*t).or_insert(0) += 1,
                RecKind::Pkt { dec: Ok(d), .. } if d.lct.toi != 0 => *sent.entry(d.lct.toi).or_insert(0) += 1,
                _ => {}
            }
            seen_log += 1;
        }
        // removal at a packet index
        if let Some((oi, at)) = c.remove {
            if let Some(f) = facts.get_mut(oi % c.objs.len().max(1)) {
                if f.removed_at.is_none() && *sent.get(&f.toi).unwrap_or(&0) >= at && (at > 0 || r.is_some() || true) {
                    if drv.sender.is_added(f.toi) {
                        drv.remove(f.toi);
                        f.removed_at = Some(drv.log.len() - 1);
                        if c.sender.full_fdt {
                            drv.publish()?;
                        }
                    }
                }
            }
        }
        // carousel horizon
        for f in facts.iter_mut() {
            if f.spec.carousel.is_some() && f.removed_at.is_none() && *stops.get(&f.toi).unwrap_or(&0) >= c.horizon.max(1) {
                if drv.sender.is_added(f.toi) {
                    drv.remove(f.toi);
                    f.removed_at = Some(drv.log.len() - 1);
                    if c.sender.full_fdt {
                        drv.publish()?;
                    }
                }
            }
        }
        match r {
            Some(i) => {
                pkts += 1;
                let is_obj = drv.log[i].pkt().map(|(_, d)| d.lct.toi != 0).unwrap_or(true);
                if is_obj {
                    obj_pkts += 1;
                }
                if obj_pkts > budget {
                    return Err(format!("sender emitted more than {} object packets without finishing", budget));
                }
                if pkts > 3_000_000 {
                    return Err(format!("sender emitted more than {} packets (FDT included) without finishing", pkts));
                }
            }
            None => {
                if drv.sender.nb_objects() == 0 {
                    // one more drain so that pending Stop events are dispatched
                    if drv.read().is_none() {
                        break;
                    }
                }
                polls += 1;
                if polls > 20_000 {
                    return Err(format!("objects still listed after {} idle polls ({} packets)", polls, pkts));
                }
                drv.advance(step);
            }
        }
    }
    let close_pkt = drv.sender.read_close_session(drv.now);
    Ok(Outcome { drv, facts, refused, close_pkt })
}

/// the C08 oracle on a driven session
pub fn check(c: &Case, out: &Outcome, eng_known: &dyn Fn(&str) -> bool, info: &mut CaseInfo) -> Result<(), String> {
    check_stream(&c.sender, &out.drv.log, Some(&out.close_pkt), &out.facts, eng_known, info)
}

/// the C08 oracle on any recorded sender log (also used by C12 for the removal semantics)
pub fn check_stream(sender: &SenderSpec, log: &[Rec], close_pkt: Option<&[u8]>, facts: &[ObjFacts], eng_known: &dyn Fn(&str) -> bool, info: &mut CaseInfo) -> Result<(), String> {
    let an: Analysis = stream::analyse(log);
    if let Some(e) = an.errors.first() {
        return Err(format!("stream not decodable per RFC: {}", e));
    }
    if let Some(i) = an.stray.first() {
        return Err(format!("object packet #{} emitted outside any StartTransfer..StopTransfer window", i));
    }
    for inst in &an.fdts {
        if let Some(e) = inst.errors.first() {
            return Err(format!("FDT instance {}: {}", inst.id, e));
        }
    }
    // close-session flag: never in read() output, always in read_close_session output
    for (i, r) in log.iter().enumerate() {
        if let Some((_, d)) = r.pkt() {
            if d.lct.close_session {
                return Err(format!("packet #{} from read() carries the close-session flag", i));
            }
        }
    }
    if let Some(close_pkt) = close_pkt {
        let cd = crate::rfc::pkt::decode(close_pkt, 0).map_err(|e| format!("close-session packet not decodable: {}", e))?;
        if !cd.lct.close_session {
            return Err("read_close_session() output does not carry the close-session flag".into());
        }
        if cd.lct.tsi != sender.tsi {
            return Err(format!("close-session packet carries TSI {} instead of {}", cd.lct.tsi, sender.tsi));
        }
    }

    for f in facts {
        let transfers = an.transfers.get(&f.toi).cloned().unwrap_or_default();
        let wire = an.wire_oti(f.toi, log)?;
        let wire = match wire {
            Some(w) => w,
            None => {
                if transfers.iter().all(|t| t.pkts.is_empty()) {
                    continue;
                }
                return Err(format!("toi {}: no OTI on the wire (neither EXT_FTI nor FDT) although packets were sent", f.toi));
            }
        };
        if wire.l != f.transfer_len {
            return Err(format!("toi {}: wire transfer length {} but the object has {}", f.toi, wire.l, f.transfer_len));
        }
        if wire.e != f.eff.e || wire.scheme != f.eff.scheme {
            return Err(format!("toi {}: wire OTI {:?} differs from the configured {:?}", f.toi, wire, f.eff));
        }
        let part = wire.partition().ok_or(format!("toi {}: wire OTI {:?} cannot be partitioned", f.toi, wire))?;
        // the wire partition must be the RFC 5052 partition of (L, E, B configured)
        let refp = ref_partition(&f.eff, f.transfer_len).ok_or("reference partition")?;
        if (part.n, part.a_large, part.a_small, part.i) != (refp.n, refp.a_large, refp.a_small, refp.i) && !(part.a_large == part.a_small && refp.a_large == refp.a_small && part.n == refp.n) {
            return Err(format!(
                "toi {}: partition announced on the wire {:?} is not RFC 5052 for L={} E={} B={}: {:?}",
                f.toi, part, f.transfer_len, f.eff.e, f.eff.b, refp
            ));
        }
        info.label(blocks_label(part.n));
        let mtc = f.spec.max_transfer_count.max(1) as usize;
        let mut completed_before = 0usize;
        for (ti, t) in transfers.iter().enumerate() {
            if let Some(r) = f.removed_at {
                if t.start_idx > r {
                    return Err(format!("toi {}: transfer {} started (log #{}) after the object had been removed (log #{})", f.toi, ti + 1, t.start_idx, r));
                }
            }
            // was the object removed while this transfer was open?
            let removed_during = match f.removed_at {
                Some(r) => r > t.start_idx && t.stop_idx.map(|s| r < s).unwrap_or(true),
                None => false,
            };
            let can_stop = f.spec.immediate_stop == Some(true) || completed_before > 0;
            let cut = removed_during && can_stop;
            let mut asm = Assembler::new(wire.l, wire.e, 1).ok_or("assembler")?;
            asm.part = part;
            asm.have = vec![false; part.t as usize];
            asm.missing = part.t;
            let mut seen: BTreeSet<(u32, u32)> = BTreeSet::new();
            let mut last_esi: BTreeMap<u32, u32> = BTreeMap::new();
            let mut repair: BTreeMap<u32, u32> = BTreeMap::new();
            let mut after_removal = 0usize;
            let mut b_flags: Vec<usize> = vec![];
            for (pi, li) in t.pkts.iter().enumerate() {
                let (_, d) = log[*li].pkt().unwrap();
                if d.lct.close_object {
                    b_flags.push(pi);
                }
                if let Some(r) = f.removed_at {
                    if *li > r && cut {
                        after_removal += 1;
                        if !d.lct.close_object {
                            return Err(format!(
                                "toi {}: packet #{} sent after the object was removed (and had been fully sent / immediate stop) lacks the close-object flag",
                                f.toi, li
                            ));
                        }
                    }
                }
                if wire.l == 0 {
                    continue;
                }
                let k = match asm.k(d.pid.sbn) {
                    Some(k) => k,
                    None => return Err(format!("toi {}: packet #{} has SBN {} but the object has {} blocks", f.toi, li, d.pid.sbn, part.n)),
                };
                if let Some(sbl) = d.pid.sbl {
                    if sbl as u32 != k {
                        return Err(format!("toi {}: packet #{} announces source block length {} for block {} which has {} symbols", f.toi, li, sbl, d.pid.sbn, k));
                    }
                }
                if !seen.insert((d.pid.sbn, d.pid.esi)) {
                    return Err(format!("toi {}: symbol ({},{}) emitted twice in transfer {}", f.toi, d.pid.sbn, d.pid.esi, ti));
                }
                if let Some(prev) = last_esi.get(&d.pid.sbn) {
                    if d.pid.esi <= *prev {
                        return Err(format!("toi {}: block {} ESI {} after ESI {} (not increasing)", f.toi, d.pid.sbn, d.pid.esi, prev));
                    }
                }
                last_esi.insert(d.pid.sbn, d.pid.esi);
                if d.pid.esi >= k {
                    *repair.entry(d.pid.sbn).or_insert(0) += 1;
                    if d.payload.len() != wire.e as usize {
                        return Err(format!("toi {}: repair symbol ({},{}) has {} bytes, E={}", f.toi, d.pid.sbn, d.pid.esi, d.payload.len(), wire.e));
                    }
                } else {
                    stream::push_symbol(&mut asm, &wire, d.pid.sbn, d.pid.esi, &d.payload);
                }
            }
            if let Some(e) = asm.errors.first() {
                if f.eff.scheme == Scheme::Raptor && sig_raptor_unaligned(&f.eff, f.transfer_len) && eng_known("raptor-symbols-not-e-slices") {
                    // excluded upstream; defensive
                } else {
                    return Err(format!("toi {} transfer {}: {}", f.toi, ti, e));
                }
            }
            for (sbn, n) in &repair {
                if *n > f.eff.parity {
                    return Err(format!("toi {}: block {} got {} repair symbols, configured {}", f.toi, sbn, n, f.eff.parity));
                }
            }
            let finished = t.stop_idx.is_some();
            if cut {
                if after_removal > 1 {
                    return Err(format!("toi {}: {} packets after removal, at most one allowed", f.toi, after_removal));
                }
                info.label("transfer cut by removal");
            } else if finished {
                // a transfer that ran to completion: every source symbol exactly once
                if !asm.complete() {
                    let missing: Vec<usize> = asm.have.iter().enumerate().filter(|(_, h)| !**h).map(|(i, _)| i).take(5).collect();
                    return Err(format!(
                        "toi {} transfer {}: StopTransfer seen but {} of {} source symbols were never emitted (first missing symbol indexes {:?})",
                        f.toi, ti, asm.missing, part.t, missing
                    ));
                }
                let content = decode_content(f.spec.cenc, &asm.data).map_err(|e| format!("toi {}: rebuilt object does not decode: {}", f.toi, e))?;
                if content != f.bytes {
                    return Err(format!(
                        "toi {} transfer {}: object rebuilt from source symbols at RFC offsets differs from the sender's bytes ({} vs {} bytes)",
                        f.toi, ti, content.len(), f.bytes.len()
                    ));
                }
                if wire.l == 0 && t.pkts.len() != 1 {
                    return Err(format!("toi {}: empty object represented by {} packets", f.toi, t.pkts.len()));
                }
                completed_before += 1;
                info.label("transfer complete");
            }
            // close-object flag placement
            let is_final_transfer = f.spec.carousel.is_none() && ti + 1 == mtc;
            for pi in &b_flags {
                let li = t.pkts[*pi];
                let last_pkt = *pi + 1 == t.pkts.len();
                let ok = (wire.l == 0 && t.pkts.len() == 1)
                    || (is_final_transfer && last_pkt && finished)
                    || (f.removed_at.map(|r| li > r).unwrap_or(false) && (cut || last_pkt));
                if !ok {
                    return Err(format!(
                        "toi {}: close-object flag on packet #{} = packet {}/{} of transfer {}/{} (SBN {}, ESI {}); allowed only on the final packet of the final transfer, on the single packet after removal, or on the lone packet of an empty object",
                        f.toi,
                        li,
                        pi + 1,
                        t.pkts.len(),
                        ti + 1,
                        mtc,
                        log[li].pkt().unwrap().1.pid.sbn,
                        log[li].pkt().unwrap().1.pid.esi
                    ));
                }
            }
            if is_final_transfer && finished && !cut && f.removed_at.is_none() && wire.l > 0 {
                let last = *t.pkts.last().unwrap();
                if !log[last].pkt().unwrap().1.lct.close_object {
                    // RFC 5651 makes B optional ("MAY"); flute documents that it sets it; the
                    // property only restricts where it may appear, so this is a label, not a failure
                    info.label("final packet without B");
                }
            }
        }
        if transfers.len() > 1 {
            info.label("transfers>=2");
        }
    }
    Ok(())
}

pub fn run_case(c: &Case, known: &dyn Fn(&str) -> bool) -> CaseResult {
    let mut info = CaseInfo::new();
    // exclusions by construction (open known findings)
    for o in &c.objs {
        let eff = effective_oti(&c.sender, o);
        if !eff.is_constructible() {
            return Ok(CaseInfo::excluded("not-constructible"));
        }
    }
    if !c.sender.oti.is_constructible() {
        return Ok(CaseInfo::excluded("not-constructible"));
    }
    if !session_can_carry_fdt(&c.sender, &c.objs) {
        return Ok(CaseInfo::excluded("domain: FDT does not fit the session OTI (publish refused)"));
    }
    // transfer lengths are only known after building: build once to evaluate signatures
    let mut tls = vec![];
    for o in &c.objs {
        let b = o.build()?;
        tls.push(b.desc.transfer_length);
    }
    for (o, tl) in c.objs.iter().zip(&tls) {
        let eff = effective_oti(&c.sender, o);
        if known("raptor-small-block") && sig_raptor_small_block(eff, *tl) {
            return Ok(CaseInfo::excluded("raptor-small-block"));
        }
        if known("rs-zero-parity") && sig_rs_zero_parity(eff, *tl) {
            return Ok(CaseInfo::excluded("rs-zero-parity"));
        }
        if known("raptor-symbols-not-e-slices") && sig_raptor_unaligned(eff, *tl) {
            return Ok(CaseInfo::excluded("raptor-symbols-not-e-slices"));
        }
    }
    // the FDT itself travels under the session OTI: same signatures for it are decided at run
    // time (its length is not known before) - see below
    let out = match caught(|| drive(c)) {
        Ok(Err(e)) if e.starts_with("publish:") && e.contains("incompatible with the parameters of your OTI") => {
            // the session's default OTI cannot carry the FDT instance itself: the sender says so
            return Ok(CaseInfo::excluded("domain: FDT does not fit the session OTI (publish refused)"));
        }
        Ok(r) => r?,
        Err(p) => {
            if fdt_hits_known(c, known) {
                return Ok(CaseInfo::excluded("fdt-under-known-finding"));
            }
            return Err(format!("sender panicked: {}", p));
        }
    };
    if fdt_hits_known(c, known) {
        return Ok(CaseInfo::excluded("fdt-under-known-finding"));
    }
    if trace_enabled() {
        crate::say!("{}", dump(&out.drv.log));
    }
    for f in &out.facts {
        info.label(scheme_label(f.eff.scheme));
        info.label(cenc_label(f.spec.cenc));
        let p = ref_partition(&f.eff, f.transfer_len);
        let nblocks = p.map(|p| p.n).unwrap_or(0);
        info.nt((nblocks >= 2 && c.sender.interleave >= 2) || f.eff.parity > 0 || f.removed_at.is_some() || f.spec.max_transfer_count >= 2);
        info.label_if(nblocks >= 2 && c.sender.interleave >= 2, "interleaved blocks");
        info.label_if(f.removed_at.is_some(), "removed");
        info.label_if(f.spec.carousel.is_some(), "carousel");
    }
    if !out.refused.is_empty() {
        info.label("an object was refused");
    }
    check(c, &out, known, &mut info)?;
    Ok(info)
}

/// The FDT instance is an object sent under the session's default OTI; with a Raptor / RS(0 parity)
/// default the open findings apply to the FDT as well.  FDT lengths are a few hundred bytes, so the
/// signature is evaluated conservatively on the scheme alone.
pub fn fdt_hits_known(c: &Case, known: &dyn Fn(&str) -> bool) -> bool {
    let s = &c.sender.oti;
    (known("rs-zero-parity") && matches!(s.scheme, Scheme::Rs28 | Scheme::Rs28Us) && s.parity == 0)
        || (known("raptor-small-block") && s.scheme == Scheme::Raptor)
        || (known("raptor-symbols-not-e-slices") && s.scheme == Scheme::Raptor)
}

pub fn case_strategy(tier: Tier) -> BoxedStrategy<Case> {
    let oo = gen::ObjOpts { max_size: tier.pick(4000, 40_000), allow_stream: true, rich_meta: false, ..Default::default() };
    let so = gen::SenderOpts::default();
    (
        gen::session_strategy(so, oo, 2),
        proptest::option::weighted(0.35, (any::<usize>(), 0u32..60)),
        prop_oneof![Just(1u64), Just(50), Just(1000), 1u64..3000],
        1u32..3,
        proptest::collection::vec((proptest::option::weighted(0.25, prop_oneof![(0u64..1500).prop_map(CarouselSpec::DelayMs), (0u64..1500).prop_map(CarouselSpec::IntervalMs)]), proptest::option::weighted(0.3, any::<bool>())), 2),
    )
        .prop_map(|((sender, mut objs), remove, step_ms, horizon, per)| {
            for (o, (car, imm)) in objs.iter_mut().zip(per) {
                o.carousel = car;
                o.immediate_stop = imm;
            }
            let remove = remove.map(|(i, at)| (i % objs.len(), at));
            Case { sender, objs, remove, step_ms, horizon }
        })
        .boxed()
}

pub fn run(eng: &mut Engine) {
    eng.assume("packets are decoded by the harness' own RFC 5651/5775/6726/5445/5510/6330 decoder (rfc/*), never by flute");
    eng.assume("Raptor (FEC 1) EXT_FTI is read with flute's own 40-bit layout: the RFC 5053 text is not available offline (DESIGN.md C06 limits)");
    let tier = eng.tier;
    let cases = tier.pick(80_000, 2_000_000);
    let known_keys: Vec<String> = eng.known.iter().filter(|k| k.status == "open").map(|k| k.key.clone()).collect();
    let known = move |k: &str| known_keys.iter().any(|x| x == k);
    eng.generated(
        PartCfg::new(
            "stream",
            "generated sender sessions (1-2 objects x scheme x E x B x parity x interleave x cenc x transfer count x carousel x removal at a packet index), packet stream decoded by the reference decoder and checked per transfer; non-trivial = (>=2 blocks with interleave>=2) or parity>0 or a removal or >=2 transfers; distinct by case",
            cases,
        )
        .limit_s(120),
        move || case_strategy(tier),
        |c| run_case(c, &known),
    );
}

pub fn replay(part: &str, case: &Value) -> Option<CaseResult> {
    match part {
        "stream" | "pinned" => {
            let c: Case = serde_json::from_value(case.clone()).ok()?;
            let known = crate::engine::load_known();
            let k = move |key: &str| known.iter().any(|x| x.property == "C08" && x.key == key && x.status == "open");
            Some(run_case(&c, &|_| false).or_else(|e| {
                let _ = &k;
                Err(e)
            }))
        }
        _ => None,
    }
}
