//! C13 Scheduling: strict queue priority, bounded file multiplexing, block interleaving.

use super::common::*;
use crate::drive::*;
use crate::engine::*;
use crate::gen;
use crate::rfc::fti::Scheme;
use crate::spec::*;
use crate::stream;
use proptest::prelude::*;
use serde::{Deserialize, Serialize};
use serde_json::{json, Value};
use std::collections::{BTreeMap, BTreeSet};

#[derive(Debug, Clone, Serialize, Deserialize)]
pub struct Case {
    pub sender: SenderSpec,
    /// (object, number of object packets after which it is added; 0 = before the first read)
    pub objs: Vec<(ObjSpec, u32)>,
}

struct Obj {
    toi: u128,
    queue: u32,
    mtc: usize,
    add_idx: usize,
    publish_idx: usize,
    order: usize,
}

pub fn run_case(c: &Case, known: &dyn Fn(&str) -> bool) -> CaseResult {
    let mut info = CaseInfo::new();
    if !c.sender.oti.is_constructible() || c.objs.iter().any(|(o, _)| !effective_oti(&c.sender, o).is_constructible()) {
        return Ok(CaseInfo::excluded("domain: OTI not constructible"));
    }
    let specs: Vec<ObjSpec> = c.objs.iter().map(|x| x.0.clone()).collect();
    if !session_can_carry_fdt(&c.sender, &specs) {
        return Ok(CaseInfo::excluded("domain: FDT does not fit the session OTI"));
    }
    if (known("raptor-small-block") || known("raptor-symbols-not-e-slices")) && c.sender.oti.scheme == Scheme::Raptor {
        return Ok(CaseInfo::excluded("raptor-small-block"));
    }
    let r = caught(|| -> Result<(SenderDriver, Vec<Obj>), String> {
        let mut drv = SenderDriver::new(&c.sender)?;
        let mut objs: Vec<Obj> = vec![];
        let mut pending: Vec<(usize, &ObjSpec, u32)> = c.objs.iter().enumerate().map(|(i, (o, a))| (i, o, *a)).collect();
        let mut obj_pkts = 0u32;
        let add_due = |drv: &mut SenderDriver, objs: &mut Vec<Obj>, pending: &mut Vec<(usize, &ObjSpec, u32)>, obj_pkts: u32, force: bool| -> Result<(), String> {
            let mut added_any = false;
            let mut k = 0;
            while k < pending.len() {
                if pending[k].2 <= obj_pkts || force {
                    let (i, o, _) = pending.remove(k);
                    let add_idx = drv.log.len();
                    if let Ok((toi, _)) = drv.add(o) {
                        objs.push(Obj { toi, queue: o.priority, mtc: o.max_transfer_count.max(1) as usize, add_idx, publish_idx: usize::MAX, order: i });
                        added_any = true;
                    }
                } else {
                    k += 1;
                }
            }
            if added_any {
                if c.sender.full_fdt {
                    drv.publish()?;
                    let p = drv.log.len() - 1;
                    for o in objs.iter_mut() {
                        if o.publish_idx == usize::MAX {
                            o.publish_idx = p;
                        }
                    }
                } else {
                    for o in objs.iter_mut() {
                        if o.publish_idx == usize::MAX {
                            o.publish_idx = o.add_idx;
                        }
                    }
                }
            }
            Ok(())
        };
        add_due(&mut drv, &mut objs, &mut pending, 0, false)?;
        let mut guard = 0usize;
        loop {
            match drv.read() {
                Some(i) => {
                    if drv.log[i].pkt().map(|(_, d)| d.lct.toi != 0).unwrap_or(false) {
                        obj_pkts += 1;
                    }
                    add_due(&mut drv, &mut objs, &mut pending, obj_pkts, false)?;
                    guard += 1;
                    if guard > 400_000 {
                        return Err("workload does not end at a fixed instant".into());
                    }
                }
                None => {
                    if !pending.is_empty() {
                        add_due(&mut drv, &mut objs, &mut pending, obj_pkts, true)?;
                        continue;
                    }
                    break;
                }
            }
        }
        Ok((drv, objs))
    });
    let (drv, objs) = match r {
        Ok(x) => x?,
        Err(p) if known("raptor-small-block") && p.contains("blockencoder.rs") && c.objs.iter().any(|(o, _)| effective_oti(&c.sender, o).scheme == Scheme::Raptor) => return Ok(CaseInfo::excluded("raptor-small-block")),
        Err(p) => return Err(format!("sender panicked: {}", p)),
    };
    if trace_enabled() {
        crate::say!("{}", dump(&drv.log));
    }
    let log = &drv.log;
    let an = stream::analyse(log);
    if let Some(e) = an.errors.first() {
        return Err(format!("stream: {}", e));
    }
    let by_toi: BTreeMap<u128, &Obj> = objs.iter().map(|o| (o.toi, o)).collect();
    let mult: BTreeMap<u32, usize> = c.sender.queues.iter().map(|(p, m)| (*p, (*m).max(1) as usize)).collect();
    // running state over the log
    let mut stops: BTreeMap<u128, usize> = BTreeMap::new();
    let mut open: BTreeMap<u32, BTreeSet<u128>> = BTreeMap::new();
    let mut first_start: BTreeMap<u32, Vec<u128>> = BTreeMap::new();
    let mut started: BTreeSet<u128> = BTreeSet::new();
    let mut two_queues_busy = false;
    let mut multiplexed = false;
    for (idx, r) in log.iter().enumerate() {
        match &r.kind {
            RecKind::Start(t) => {
                if let Some(o) = by_toi.get(t) {
                    let set = open.entry(o.queue).or_default();
                    set.insert(*t);
                    let m = *mult.get(&o.queue).unwrap_or(&1);
                    if set.len() > m {
                        return Err(format!("queue {}: {} objects in transmission at once ({:?}), multiplex_files allows max(1, {}) = {}", o.queue, set.len(), set, c.sender.queues.iter().find(|q| q.0 == o.queue).map(|q| q.1).unwrap_or(0), m));
                    }
                    if set.len() >= 2 {
                        multiplexed = true;
                    }
                    if started.insert(*t) {
                        first_start.entry(o.queue).or_default().push(*t);
                    }
                }
            }
            RecKind::Stop(t) => {
                *stops.entry(*t).or_insert(0) += 1;
                if let Some(o) = by_toi.get(t) {
                    open.entry(o.queue).or_default().remove(t);
                }
            }
            RecKind::Pkt { dec: Ok(d), .. } if d.lct.toi != 0 => {
                let x = match by_toi.get(&d.lct.toi) {
                    Some(x) => x,
                    None => continue,
                };
                // strict priority: nothing ready in a queue with a smaller key
                for y in &objs {
                    if y.queue < x.queue && y.publish_idx < idx && y.add_idx < idx {
                        let done = *stops.get(&y.toi).unwrap_or(&0);
                        // published only counts once the instance listing it is out (C11); the instance is
                        // complete before any object packet, so publish_idx < idx suffices here
                        if done < y.mtc {
                            return Err(format!(
                                "packet #{} belongs to TOI {} of queue {} although TOI {} of the higher-priority queue {} is published and unfinished ({} of {} transfers done)",
                                idx, x.toi, x.queue, y.toi, y.queue, done, y.mtc
                            ));
                        }
                    }
                }
                if open.iter().filter(|(_, s)| !s.is_empty()).count() >= 2 || objs.iter().any(|y| y.queue != x.queue && y.add_idx < idx && *stops.get(&y.toi).unwrap_or(&0) < y.mtc) {
                    two_queues_busy = true;
                }
            }
            _ => {}
        }
    }
    // FIFO: first transfers start in add order within a queue
    for (q, v) in &first_start {
        let orders: Vec<usize> = v.iter().map(|t| by_toi[t].order).collect();
        let adds: Vec<usize> = v.iter().map(|t| by_toi[t].add_idx).collect();
        if !adds.windows(2).all(|w| w[0] <= w[1]) {
            return Err(format!("queue {}: first transfers started in the order {:?} (object numbers), objects were added in the order of their numbers (add positions {:?})", q, orders, adds));
        }
    }
    // round-robin among multiplexed objects of a queue and interleaving window inside an object
    let mut interleaved = false;
    for (toi, ts) in &an.transfers {
        let x = match by_toi.get(toi) {
            Some(x) => x,
            None => continue,
        };
        for t in ts {
            // round robin: between two consecutive packets of this transfer every other transfer of the
            // same queue that was open before the first and still emits after the second sent something
            for w in t.pkts.windows(2) {
                let (i1, i2) = (w[0], w[1]);
                for (toi2, ts2) in &an.transfers {
                    if toi2 == toi {
                        continue;
                    }
                    if by_toi.get(toi2).map(|y| y.queue != x.queue).unwrap_or(true) {
                        continue;
                    }
                    for t2 in ts2 {
                        if t2.start_idx < i1 && t2.pkts.iter().any(|p| *p > i2) && t2.pkts.iter().any(|p| *p < i1) {
                            if !t2.pkts.iter().any(|p| *p > i1 && *p < i2) {
                                return Err(format!(
                                    "queue {}: TOI {} emitted packets #{} and #{} while TOI {} (in transmission before and after) emitted nothing in between - not round-robin",
                                    x.queue, toi, i1, i2, toi2
                                ));
                            }
                        }
                    }
                }
            }
            // interleave window (complete transfers only)
            if t.stop_idx.is_none() {
                continue;
            }
            let mut first: BTreeMap<u32, usize> = BTreeMap::new();
            let mut last: BTreeMap<u32, usize> = BTreeMap::new();
            for (n, li) in t.pkts.iter().enumerate() {
                let d = log[*li].pkt().unwrap().1;
                first.entry(d.pid.sbn).or_insert(n);
                last.insert(d.pid.sbn, n);
            }
            let window = c.sender.interleave.max(1) as usize;
            for n in 0..t.pkts.len() {
                let open_blocks: Vec<u32> = first.iter().filter(|(s, f)| **f <= n && last[*s] >= n).map(|(s, _)| *s).collect();
                if open_blocks.len() > window {
                    return Err(format!("TOI {}: {} source blocks open at once ({:?}) at packet {} of the transfer, interleave_blocks = {}", toi, open_blocks.len(), open_blocks, n, window));
                }
                if open_blocks.len() >= 2 {
                    interleaved = true;
                }
            }
            let mut order: Vec<(usize, u32)> = first.iter().map(|(s, f)| (*f, *s)).collect();
            order.sort();
            if !order.windows(2).all(|w| w[0].1 < w[1].1) {
                return Err(format!("TOI {}: source blocks were opened in the order {:?}, not in increasing block number", toi, order.iter().map(|o| o.1).collect::<Vec<_>>()));
            }
        }
    }
    info.nt(two_queues_busy || multiplexed || interleaved);
    info.label_if(two_queues_busy, ">=2 queues busy");
    info.label_if(multiplexed, "multiplexed objects");
    info.label_if(interleaved, "interleaved blocks");
    info.label(format!("queues={}", c.sender.queues.len()));
    info.label(format!("objects={}", objs.len()));
    Ok(info)
}

pub fn case_strategy(tier: Tier, max_objs: usize) -> BoxedStrategy<Case> {
    let oo = gen::ObjOpts { max_size: tier.pick(500, 3000), allow_stream: false, rich_meta: false, allow_cenc: false, max_transfers: 2, ..Default::default() };
    let so = gen::SenderOpts { max_queues: 3, ..Default::default() };
    (gen::session_strategy(so, oo, max_objs), proptest::collection::vec(prop_oneof![3 => Just(0u32), 2 => 0u32..40], max_objs))
        .prop_map(|((mut sender, objs), when)| {
            sender.interleave = sender.interleave.min(4).max(1);
            Case { sender, objs: objs.into_iter().zip(when).collect() }
        })
        .boxed()
}

/// small grid, enumerated: queues x objects (0..3 blocks) x multiplex x interleave
pub fn grid_case(mut i: u64) -> Case {
    let mut take = |n: u64| {
        let v = i % n;
        i /= n;
        v
    };
    let interleave = take(4) as u8 + 1;
    let m0 = take(4) as u32;
    let m1 = take(4) as u32;
    let nq = take(2) as usize + 1;
    let nobj = take(3) as usize + 2;
    let full_fdt = take(2) == 0;
    let mut sender = SenderSpec::simple(OtiSpec::nocode(2048, 8));
    sender.interleave = interleave;
    sender.full_fdt = full_fdt;
    sender.queues = if nq == 1 { vec![(0, m0)] } else { vec![(0, m0), (3, m1)] };
    let mut objs = vec![];
    for k in 0..nobj {
        let blocks = take(4) as usize; // 0..3 blocks of 2 symbols of 8 bytes
        let q = if nq == 1 { 0 } else { [0u32, 3][take(2) as usize] };
        let mut o = ObjSpec::simple(blocks * 16, 40 + k as u64);
        o.oti = Some(OtiSpec::nocode(8, 2));
        o.priority = q;
        o.location = format!("file:///g/{}", k);
        o.max_transfer_count = 1 + take(2) as u32;
        objs.push((o, 0));
    }
    Case { sender, objs }
}

pub fn grid_total() -> u64 {
    // interleave 4 x m0 4 x m1 4 x nq 2 x nobj 3 x fdt 2 x per object (4 blocks x 2 queues x 2 mtc)^nobj (max 4 objects)
    4 * 4 * 4 * 2 * 3 * 2 * 16u64.pow(4)
}

pub fn run(eng: &mut Engine) {
    eng.assume("workloads run at one fixed instant and have no start time, carousel or pacing, so 'ready' = added, published (FullFDT) and with transfers left; transfer boundaries come from the Subscriber events, packets from the reference decoder");
    eng.assume("FIFO is compared on first transfers only (later transfers are re-queued when the previous one completes)");
    let tier = eng.tier;
    let known = super::c01::known_fn(eng);
    let k2 = super::c01::known_fn(eng);
    eng.generated(
        PartCfg::new(
            "workloads",
            "up to 3 priority queues (keys 0..5) x multiplex_files 0..3 x interleave 1..4 x 1-6 objects (0 to several blocks, 1-2 transfers, 5 schemes) added before the first read or after n object packets, both publish modes; per packet: strict priority, multiplex bound, round-robin; per transfer: interleave window and increasing block order; per queue: FIFO of first starts; non-trivial = >=2 queues busy at once or >=2 objects multiplexed or >=2 blocks interleaved; distinct by case",
            tier.pick(100_000, 2_000_000),
        ),
        move || case_strategy(tier, 6),
        move |c| run_case(c, &known),
    );
    if tier == Tier::Thorough {
        let total = grid_total();
        eng.enumerated(
            PartCfg::new("grid", "exhaustive small grid: 1-2 queues x 2-4 No-Code objects of 0..3 blocks x queue x 1-2 transfers x multiplex 0..3 per queue x interleave 1..4 x both publish modes", total),
            total,
            grid_case,
            move |c| run_case(c, &k2),
        );
    } else {
        // a deterministic slice of the grid in the quick tier
        let total = grid_total();
        let n = 40_000u64;
        eng.enumerated(
            PartCfg::new("grid-slice", "every (total/40000)-th point of the small grid that the thorough tier enumerates completely", n).slice(),
            n,
            move |i| grid_case(i * (total / n) + (i % 7)),
            move |c| run_case(c, &k2),
        );
    }
    let _ = json!(null);
}

pub fn replay(part: &str, case: &Value) -> Option<CaseResult> {
    match part {
        "workloads" | "grid" | "grid-slice" | "pinned" => Some(run_case(&serde_json::from_value(case.clone()).ok()?, &|_| false)),
        _ => None,
    }
}
