//! C05 Filesystem writer never touches anything outside its destination directory.

use crate::drive::*;
use crate::engine::*;
use crate::monitor::{Faults, Monitor};
use crate::rfc::fdt::{ForeignFdt, ForeignFile};
use crate::rfc::fti::{self, Fti, PayloadId, Scheme};
use crate::rfc::lct::{self, LctSpec};
use crate::spec::*;
use base64::Engine as _;
use proptest::prelude::*;
use serde::{Deserialize, Serialize};
use serde_json::Value;
use std::cell::RefCell;
use std::collections::BTreeMap;
use std::path::{Path, PathBuf};
use std::rc::Rc;

pub const PREFIXES: [&str; 9] = ["file:///", "file://host/", "http://h/", "x:", "x:/", "x://h/", "", "/", "//"];
/// `{ABS}` stands for an absolute path inside the sandbox but outside the destination directory
pub const SEGMENTS: [&str; 8] = ["name", ".", "..", "", "%2e%2e", "..%2f", "a\\..\\b", "{ABS}"];

#[derive(Debug, Clone, Copy, PartialEq, Eq, Serialize, Deserialize)]
pub enum Outcome {
    Complete,
    WrongMd5,
    Interrupted,
}

#[derive(Debug, Clone, Serialize, Deserialize)]
pub struct Case {
    /// the Content-Location with `{ABS}` placeholders
    pub location: String,
    pub outcome: Outcome,
}

pub struct Sandbox {
    pub _tmp: tempfile::TempDir,
    pub root: PathBuf,
    pub dest: PathBuf,
    pub abs_target: PathBuf,
    pub canaries: Vec<(PathBuf, Vec<u8>)>,
}

/// depth of the destination below the watched root: more `..` than this cannot be generated
pub const DEPTH: usize = 8;

impl Sandbox {
    pub fn new() -> Sandbox {
        let tmp = tempfile::Builder::new().prefix("fvc05").tempdir().expect("tempdir");
        let root = tmp.path().join("root");
        let mut p = root.clone();
        let mut canaries = vec![];
        std::fs::create_dir_all(&p).unwrap();
        for i in 0..DEPTH {
            let c = p.join(format!("canary{}.txt", i));
            let content = format!("canary {}", i).into_bytes();
            std::fs::write(&c, &content).unwrap();
            canaries.push((c, content));
            p = p.join(format!("d{}", i));
            std::fs::create_dir_all(&p).unwrap();
        }
        let dest = p.join("dest");
        std::fs::create_dir_all(&dest).unwrap();
        // a sibling of the destination with a canary, and the directory `{ABS}` points into
        let sib = p.join("sibling");
        std::fs::create_dir_all(&sib).unwrap();
        let c = sib.join("canary.txt");
        std::fs::write(&c, b"sibling").unwrap();
        canaries.push((c, b"sibling".to_vec()));
        // a victim file with a plausible name next to dest
        let c = p.join("name");
        std::fs::write(&c, b"victim").unwrap();
        canaries.push((c, b"victim".to_vec()));
        let abs_target = root.join("d0").join("abs_target");
        std::fs::create_dir_all(&abs_target).unwrap();
        Sandbox { _tmp: tmp, root, dest, abs_target, canaries }
    }

    /// all files and directories under root except what lies under dest
    pub fn outside(&self) -> BTreeMap<PathBuf, Option<Vec<u8>>> {
        let mut m = BTreeMap::new();
        fn walk(d: &Path, skip: &Path, m: &mut BTreeMap<PathBuf, Option<Vec<u8>>>) {
            if let Ok(rd) = std::fs::read_dir(d) {
                for e in rd.flatten() {
                    let p = e.path();
                    if p == skip {
                        m.insert(p, None);
                        continue;
                    }
                    let md = std::fs::symlink_metadata(&p);
                    if md.map(|m| m.is_dir()).unwrap_or(false) {
                        m.insert(p.clone(), None);
                        walk(&p, skip, m);
                    } else {
                        let c = std::fs::read(&p).ok();
                        m.insert(p, c);
                    }
                }
            }
        }
        walk(&self.root, &self.dest, &mut m);
        m
    }

    pub fn inside(&self) -> Vec<(PathBuf, Vec<u8>)> {
        let mut v = vec![];
        fn walk(d: &Path, v: &mut Vec<(PathBuf, Vec<u8>)>) {
            if let Ok(rd) = std::fs::read_dir(d) {
                for e in rd.flatten() {
                    let p = e.path();
                    if p.is_dir() {
                        walk(&p, v);
                    } else {
                        v.push((p.clone(), std::fs::read(&p).unwrap_or_default()));
                    }
                }
            }
        }
        walk(&self.dest, &mut v);
        v
    }

    pub fn clean_inside(&self) {
        if let Ok(rd) = std::fs::read_dir(&self.dest) {
            for e in rd.flatten() {
                let p = e.path();
                if p.is_dir() {
                    let _ = std::fs::remove_dir_all(&p);
                } else {
                    let _ = std::fs::remove_file(&p);
                }
            }
        }
    }
}

thread_local! {
    static SB: RefCell<Option<Rc<Sandbox>>> = const { RefCell::new(None) };
    static BASELINE: RefCell<Option<BTreeMap<PathBuf, Option<Vec<u8>>>>> = const { RefCell::new(None) };
}

fn sandbox() -> Rc<Sandbox> {
    SB.with(|s| {
        let mut g = s.borrow_mut();
        if g.is_none() {
            let sb = Rc::new(Sandbox::new());
            BASELINE.with(|b| *b.borrow_mut() = Some(sb.outside()));
            *g = Some(sb);
        }
        g.as_ref().unwrap().clone()
    })
}

const TSI: u64 = 9;
const TOI: u128 = 5;

fn pkt(toi: u128, exts: Vec<lct::Ext>, sbn: u32, esi: u32, payload: &[u8], close: bool) -> Vec<u8> {
    let spec = LctSpec {
        version: 1,
        psi: 0,
        res: 0,
        c: 0,
        cci: 0,
        s: 0,
        o: 0,
        h: 1,
        tsi: TSI,
        toi,
        cp: 0,
        close_session: false,
        close_object: close,
        exts,
    };
    let mut p = lct::build(&spec);
    p.extend_from_slice(&fti::encode_payload_id(Scheme::NoCode, 0, &PayloadId { sbn, esi, sbl: None }));
    p.extend_from_slice(payload);
    p
}

pub fn session_packets(location: &str, outcome: Outcome, content: &[u8]) -> Vec<Vec<u8>> {
    let md5 = base64::engine::general_purpose::STANDARD.encode(md5::compute(content).0);
    let wrong = base64::engine::general_purpose::STANDARD.encode(md5::compute(b"something else").0);
    let file = ForeignFile::new(TOI, location)
        .with("Content-Length", content.len())
        .with("Transfer-Length", content.len())
        .with("Content-MD5", if outcome == Outcome::WrongMd5 { wrong } else { md5 });
    let fdt = ForeignFdt::new(4_000_000_000).file(file);
    let xml = fdt.to_xml().into_bytes();
    let mut out = vec![];
    // FDT instance: one No-Code symbol
    let mut f = Fti::blank(Scheme::NoCode);
    f.transfer_length = xml.len() as u64;
    f.e = 60000;
    f.b = 8;
    out.push(pkt(0, vec![lct::ext_fdt(2, 1), fti::encode(&f)], 0, 0, &xml, false));
    // object: two symbols in one block, in-band FTI
    let e = (content.len() + 1) / 2;
    let mut of = Fti::blank(Scheme::NoCode);
    of.transfer_length = content.len() as u64;
    of.e = e as u16;
    of.b = 4;
    out.push(pkt(TOI, vec![fti::encode(&of)], 0, 0, &content[..e], outcome == Outcome::Interrupted));
    if outcome != Outcome::Interrupted {
        out.push(pkt(TOI, vec![fti::encode(&of)], 0, 1, &content[e..], false));
    }
    out
}

pub fn run_case(c: &Case) -> CaseResult {
    let sb = sandbox();
    let abs = sb.abs_target.join("x").to_string_lossy().to_string();
    let abs_rel = abs.trim_start_matches('/').to_string();
    // `{ABS}` directly after a '/' (or at the start) would otherwise produce "//<abs>": the
    // placeholder carries no leading slash when it follows one
    let mut location = String::new();
    let mut rest = c.location.as_str();
    while let Some(i) = rest.find("{ABS}") {
        location.push_str(&rest[..i]);
        if location.ends_with('/') {
            location.push_str(&abs_rel);
        } else {
            location.push_str(&abs);
        }
        rest = &rest[i + 5..];
    }
    location.push_str(rest);
    // never let a relative reference climb above the watched root
    if location.matches("..").count() + location.matches("%2e%2e").count() + location.matches("%2E%2E").count() > DEPTH - 1 {
        return Ok(CaseInfo::excluded("domain: more '..' than the sandbox is deep"));
    }
    // hygiene: where would a writer that joins the raw path unchecked put the file? if that is an
    // absolute path which does not exist yet, remember it so that it can be removed afterwards
    let litter: Option<PathBuf> = {
        let raw = match url::Url::parse(&location) {
            Ok(u) => u.path().to_string(),
            Err(_) => location.clone(),
        };
        let rel = raw.strip_prefix('/').unwrap_or(&raw).to_string();
        let p = PathBuf::from(rel);
        if p.is_absolute() && !p.starts_with(&sb.root) && !p.exists() {
            Some(p)
        } else {
            None
        }
    };
    let content = b"payload of the object under test".to_vec();
    let fsb = flute::receiver::writer::ObjectWriterFSBuilder::new(&sb.dest, true).map_err(|e| e.0.to_string())?;
    let mon = Monitor::with_inner(true, Faults::none(), Rc::new(fsb));
    let mut rx = Rx::with_monitor(&RxSpec::default_once(), mon.clone());
    for (i, p) in session_packets(&location, c.outcome, &content).iter().enumerate() {
        rx.push(p, t0() + std::time::Duration::from_millis(i as u64));
    }
    drop(rx);
    let mut littered = None;
    if let Some(p) = &litter {
        if p.is_file() {
            let _ = std::fs::remove_file(p);
            littered = Some(p.clone());
        }
    }
    let writers = mon.writers();
    let inside = sb.inside();
    let outside = sb.outside();
    let base = BASELINE.with(|b| b.borrow().clone().unwrap());
    sb.clean_inside();
    let mut result: Result<(), String> = Ok(());
    if outside != base {
        // describe the difference, then repair the sandbox so that later cases start clean
        let mut diff = vec![];
        for (p, v) in &outside {
            match base.get(p) {
                None => diff.push(format!("created {:?}", p.strip_prefix(&sb.root).unwrap_or(p))),
                Some(b) if b != v => diff.push(format!("modified {:?}", p.strip_prefix(&sb.root).unwrap_or(p))),
                _ => {}
            }
        }
        for p in base.keys() {
            if !outside.contains_key(p) {
                diff.push(format!("removed {:?}", p.strip_prefix(&sb.root).unwrap_or(p)));
            }
        }
        for (p, v) in &outside {
            if !base.contains_key(p) {
                if v.is_some() {
                    let _ = std::fs::remove_file(p);
                } else {
                    let _ = std::fs::remove_dir_all(p);
                }
            }
        }
        for (p, content) in &sb.canaries {
            let _ = std::fs::write(p, content);
        }
        let _ = std::fs::create_dir_all(&sb.abs_target);
        BASELINE.with(|b| *b.borrow_mut() = Some(sb.outside()));
        result = Err(format!(
            "Content-Location {:?} ({:?}): the filesystem writer touched the tree outside its destination directory (dest = <root>/{}): {}",
            location,
            c.outcome,
            sb.dest.strip_prefix(&sb.root).unwrap().display(),
            diff.join(", ")
        ));
    }
    result?;
    if let Some(p) = littered {
        return Err(format!("Content-Location {:?} ({:?}): the filesystem writer created {:?}, an absolute path outside its destination directory", location, c.outcome, p));
    }
    let w = writers.iter().find(|w| w.toi == TOI);
    let mut info = CaseInfo::new();
    match (c.outcome, w) {
        (Outcome::Complete, Some(w)) if w.completed() => {
            // completed: exactly one file inside dest with the content
            if inside.len() != 1 || inside[0].1 != content {
                return Err(format!(
                    "Content-Location {:?}: writer completed but the destination directory holds {:?}",
                    location,
                    inside.iter().map(|f| (f.0.strip_prefix(&sb.dest).unwrap().to_path_buf(), f.1.len())).collect::<Vec<_>>()
                ));
            }
            info.label("stored inside dest");
        }
        (_, Some(w)) => {
            if !w.failed() {
                return Err(format!("Content-Location {:?} ({:?}): writer neither completed nor failed: {}", location, c.outcome, w.trace()));
            }
            // failed (unmappable location, wrong MD5 or interruption): nothing may be left behind
            if !inside.is_empty() {
                return Err(format!(
                    "Content-Location {:?} ({:?}): the object failed ({}) but files were left in the destination directory: {:?}",
                    location,
                    c.outcome,
                    w.trace(),
                    inside.iter().map(|f| f.0.strip_prefix(&sb.dest).unwrap().to_path_buf()).collect::<Vec<_>>()
                ));
            }
            info.label(if c.outcome == Outcome::Complete { "refused (object failed)" } else { "failed as injected" });
        }
        (_, None) => {
            return Err(format!("Content-Location {:?}: no writer was created for the object", location));
        }
    }
    let l = &c.location;
    let nt = l.contains("..") || l.starts_with('/') || l.contains("{ABS}") || l.contains("%2e") || url::Url::parse(&location).map(|u| u.cannot_be_a_base()).unwrap_or(true);
    info.nt(nt);
    info.label(format!("{:?}", c.outcome));
    Ok(info)
}

/// index -> grammar string: prefix x up to `depth` segments
pub fn grammar_total(depth: u32) -> u64 {
    let per: u64 = (0..=depth).map(|i| 8u64.pow(i)).sum();
    9 * per * 3
}

pub fn grammar_case(mut i: u64, depth: u32) -> Case {
    let outcome = [Outcome::Complete, Outcome::WrongMd5, Outcome::Interrupted][(i % 3) as usize];
    i /= 3;
    let prefix = PREFIXES[(i % 9) as usize];
    i /= 9;
    // i in 0..sum 8^k : find the length
    let mut len = 0u32;
    let mut base = 0u64;
    loop {
        let n = 8u64.pow(len);
        if i < base + n || len == depth {
            break;
        }
        base += n;
        len += 1;
    }
    let mut k = i - base;
    let mut segs = vec![];
    for _ in 0..len {
        segs.push(SEGMENTS[(k % 8) as usize]);
        k /= 8;
    }
    Case { location: format!("{}{}", prefix, segs.join("/")), outcome }
}

pub fn random_case() -> BoxedStrategy<Case> {
    // tokens: text without separators, separators, dot segments, escapes, placeholders
    let tok = prop_oneof![
        4 => "[a-zA-Z0-9_ .~-]{1,8}",
        2 => "[ -~&&[^/\\\\]]{1,6}",
        2 => "[a-zé日本ü€\u{202e}\u{feff}]{1,4}",
        3 => Just("/".to_string()),
        2 => Just("..".to_string()),
        1 => Just(".".to_string()),
        1 => Just("\\".to_string()),
        1 => Just("%2e%2e".to_string()),
        1 => Just("%2E%2E%2F".to_string()),
        1 => Just("%2f".to_string()),
        1 => Just("%5c".to_string()),
        1 => Just("%00".to_string()),
        1 => Just(":".to_string()),
        1 => Just("?".to_string()),
        1 => Just("#".to_string()),
        1 => Just("@".to_string()),
        1 => Just("{ABS}".to_string()),
        1 => Just("\t".to_string()),
        1 => Just("\n".to_string()),
        1 => "[a-z]{200,300}",
    ];
    (proptest::sample::select(&PREFIXES[..]), proptest::option::weighted(0.3, "[a-z][a-z0-9+.-]{0,5}:/{0,3}"), proptest::collection::vec(tok, 0..9), proptest::sample::select(&[Outcome::Complete, Outcome::WrongMd5, Outcome::Interrupted][..]))
        .prop_map(|(prefix, scheme, toks, outcome)| {
            let mut s = String::new();
            match scheme {
                Some(sc) => s.push_str(&sc),
                None => s.push_str(prefix),
            }
            for t in toks {
                s.push_str(&t);
            }
            Case { location: sanitize(&s), outcome }
        })
        .boxed()
}

/// Safety of the harness itself: wherever a string could turn into an absolute path in a
/// vulnerable writer (it starts with a separator, or contains two consecutive separators - '/' or
/// '\', which url converts for special schemes), the text that follows is the sandbox placeholder.
pub fn sanitize(s: &str) -> String {
    let chars: Vec<char> = s.chars().collect();
    let is_sep = |c: char| c == '/' || c == '\\';
    let mut out = String::new();
    let mut i = 0;
    while i < chars.len() {
        if is_sep(chars[i]) {
            let start = i;
            while i < chars.len() && is_sep(chars[i]) {
                out.push(chars[i]);
                i += 1;
            }
            let run = i - start;
            let rest: String = chars[i..].iter().collect();
            if (run >= 2 || start == 0) && !rest.starts_with("{ABS}") {
                out.push_str("{ABS}/");
            }
        } else {
            out.push(chars[i]);
            i += 1;
        }
    }
    out
}

pub fn run(eng: &mut Engine) {
    eng.assume("symbolic links already present inside the destination directory are out of scope (an FDT cannot create one)");
    eng.assume("absolute path forms are generated only with a path into the harness sandbox behind them, and at most 7 '..' per string, so that a vulnerable writer is caught inside the watched tree instead of littering the real filesystem");
    eng.assume("the location travels in a foreign FDT instance built by the harness (flute's own sender only accepts url::Url); NUL cannot be carried by XML and is not generated");
    let depth = eng.tier.pick(4u32, 5u32);
    let total = grammar_total(depth);
    eng.enumerated(
        PartCfg::new(
            "grammar",
            format!(
                "exhaustive: 9 prefixes x up to {} segments from {{name, ., .., '', %2e%2e, ..%2f, a\\..\\b, absolute sandbox path}} x 3 outcomes (complete / wrong MD5 / interrupted), each delivered through a real session (foreign FDT + object packets) into ObjectWriterFS; non-trivial = contains '..', starts with '/', is a cannot-be-a-base URL or carries an absolute path; distinct by string",
                depth
            ),
            total,
        )
        .limit_s(60),
        total,
        move |i| grammar_case(i, depth),
        run_case,
    );
    eng.generated(
        PartCfg::new(
            "random",
            "random locations from tokens (printable ASCII, non-ASCII incl. bidi/BOM characters, separators, dot segments, percent escapes, scheme-like prefixes, tabs/newlines, 200-300 character names, absolute sandbox paths) x 3 outcomes; non-trivial as in [grammar]; distinct by case",
            eng.tier.pick(20_000, 600_000),
        )
        .limit_s(60),
        random_case,
        run_case,
    );
}

pub fn replay(part: &str, case: &Value) -> Option<CaseResult> {
    match part {
        "grammar" | "random" | "pinned" => Some(run_case(&serde_json::from_value(case.clone()).ok()?)),
        _ => None,
    }
}
