//! C16 Carousel late join: a receiver starting at any packet still gets every object.

use crate::chan::*;
use crate::drive::RxSpec;
use crate::engine::*;
use crate::monitor::Faults;
use crate::spec::*;
use proptest::prelude::*;
use serde::{Deserialize, Serialize};
use serde_json::{json, Value};
use std::collections::BTreeSet;

#[derive(Debug, Clone, Serialize, Deserialize)]
pub struct Case {
    pub sess: SessSpec,
    /// join offset as a share of the first full cycle
    pub join: u16,
}

/// index one past the packet that completes the `n`-th unit (transfer / FDT emission) that
/// started at or after `from`; None when the recording is too short
fn nth_complete_after(starts_ends: &[(usize, usize)], from: usize, n: usize) -> Option<usize> {
    starts_ends.iter().filter(|(s, _)| *s >= from).nth(n - 1).map(|(_, e)| *e + 1)
}

pub struct Cycles {
    /// per object: (first packet index, last packet index) of every completed transfer
    pub transfers: Vec<Vec<(usize, usize)>>,
    /// (first, last) packet index of every complete emission of an FDT instance listing all objects
    pub fdt: Vec<(usize, usize)>,
}

pub fn cycles(ls: &LabeledSession) -> Cycles {
    let mut transfers: Vec<Vec<(usize, usize)>> = vec![vec![]; ls.objs.len()];
    let mut cur: Vec<Option<(usize, usize, usize)>> = vec![None; ls.objs.len()]; // (transfer, first, last)
    for (i, k) in ls.kinds.iter().enumerate() {
        if let PktKind::Obj { obj, transfer, .. } = k {
            match cur[*obj] {
                Some((t, f, _)) if t == *transfer => cur[*obj] = Some((t, f, i)),
                Some((_, f, l)) => {
                    transfers[*obj].push((f, l));
                    cur[*obj] = Some((*transfer, i, i));
                }
                None => cur[*obj] = Some((*transfer, i, i)),
            }
        }
    }
    // the transfer still open at the end of the recording is not counted as complete
    let mut fdt = vec![];
    // emissions of instances, any instance: complete when all source symbols were seen since its start
    let mut seen: Vec<BTreeSet<(u32, u32)>> = vec![BTreeSet::new(); ls.fdts.len()];
    let mut start: Vec<Option<usize>> = vec![None; ls.fdts.len()];
    for (i, k) in ls.kinds.iter().enumerate() {
        if let PktKind::Fdt { inst, sbn, esi, source } = k {
            if start[*inst].is_none() {
                start[*inst] = Some(i);
            }
            if *source {
                seen[*inst].insert((*sbn, *esi));
            }
            let total: u32 = ls.fdts[*inst].k.iter().sum();
            if seen[*inst].len() as u32 == total {
                fdt.push((start[*inst].unwrap(), i, *inst));
                seen[*inst].clear();
                start[*inst] = None;
            }
        }
    }
    Cycles { transfers, fdt: fdt.into_iter().map(|(s, e, _)| (s, e)).collect() }
}

pub fn check_join(ls: &LabeledSession, cy: &Cycles, j: usize) -> CaseResult {
    let mut info = CaseInfo::new();
    // end of "two further full cycles of the objects and the FDT" after joining at j
    let mut end = 0usize;
    for t in &cy.transfers {
        match nth_complete_after(t, j, 2) {
            Some(e) => end = end.max(e),
            None => return Ok(CaseInfo::excluded("domain: recording too short for two further cycles")),
        }
    }
    // an FDT emission listing each object: use instances that list it
    for (oi, o) in ls.objs.iter().enumerate() {
        let _ = oi;
        let listing: Vec<(usize, usize)> = cy
            .fdt
            .iter()
            .filter(|(s, _)| match &ls.kinds[*s] {
                PktKind::Fdt { inst, .. } => ls.fdts[*inst].lists.contains(&o.toi),
                _ => false,
            })
            .cloned()
            .collect();
        match nth_complete_after(&listing, j, 2) {
            Some(e) => end = end.max(e),
            None => return Ok(CaseInfo::excluded("domain: recording too short for two further FDT cycles")),
        }
    }
    let order: Vec<usize> = (j..end.min(ls.packets.len())).collect();
    let rx = RxSpec::default_once();
    // deliver with the real emission instants
    let mon = crate::monitor::Monitor::new(true, Faults::none());
    let mut r = crate::drive::Rx::with_monitor(&rx, mon.clone());
    for i in &order {
        r.push(&ls.packets[*i], ls.times[*i]);
    }
    let writers = mon.writers();
    drop(r);
    if let Some(e) = mon.protocol_errors().first() {
        return Err(format!("object-writer protocol (C09 automaton): {}", e));
    }
    for (oi, o) in ls.objs.iter().enumerate() {
        let ws: Vec<_> = writers.iter().filter(|w| w.toi == o.toi).collect();
        let done: Vec<_> = ws.iter().filter(|w| w.completed()).collect();
        if done.is_empty() {
            return Err(format!(
                "joining at packet {} of {} ({:?}): object {} (toi {}, {:?}, {} bytes, k per block {:?}, in-band FTI {}) was not delivered within two further full cycles (packets {}..{}); writers: [{}]",
                j,
                ls.packets.len(),
                ls.kinds[j],
                oi,
                o.toi,
                o.scheme,
                o.bytes.len(),
                o.k,
                ls.spec.objs[oi].oti.as_ref().map(|x| x.inband_fti).unwrap_or(true),
                j,
                end,
                ws.iter().map(|w| w.trace()).collect::<Vec<_>>().join(" | ")
            ));
        }
        for w in done {
            if w.data != o.bytes {
                return Err(format!("joining at packet {}: object {} completed with wrong bytes", j, oi));
            }
            let url = url::Url::parse(&ls.spec.objs[oi].location).map_err(|e| e.to_string())?;
            if w.meta.content_location != url.as_str() || w.meta.content_length != Some(o.bytes.len()) {
                return Err(format!("joining at packet {}: object {} delivered with wrong metadata {:?}", j, oi, w.meta));
            }
        }
    }
    let inside = match &ls.kinds[j] {
        PktKind::Fdt { sbn, esi, .. } => *sbn != 0 || *esi != 0,
        PktKind::Obj { sbn, esi, .. } => *sbn != 0 || *esi != 0,
        _ => false,
    };
    info.nt(inside);
    info.label(match &ls.kinds[j] {
        PktKind::Fdt { .. } => "join at an FDT packet",
        PktKind::Obj { .. } => "join at an object packet",
        _ => "join elsewhere",
    });
    info.label_if(inside, "join mid-FDT/mid-object/mid-block");
    Ok(info)
}

pub fn first_cycle_end(cy: &Cycles) -> usize {
    let mut end = 0;
    for t in &cy.transfers {
        if let Some((_, e)) = t.first() {
            end = end.max(*e + 1);
        }
    }
    if let Some((_, e)) = cy.fdt.first() {
        end = end.max(*e + 1);
    }
    end
}

pub fn session_strategy() -> BoxedStrategy<SessSpec> {
    (small_session_strategy(SmallOpts { max_symbols: 10, allow_cenc: true, allow_empty: true, carousel: true, allow_two_objects: true, ..Default::default() }), prop_oneof![Just(CarouselSpec::DelayMs(10)), Just(CarouselSpec::IntervalMs(30)), Just(CarouselSpec::DelayMs(0))], any::<bool>())
        .prop_map(|(mut s, car, third)| {
            for o in s.objs.iter_mut() {
                o.carousel = Some(car);
            }
            if third && s.objs.len() == 2 {
                let mut o = s.objs[0].clone();
                o.location = "file:///s2/third".into();
                o.content.seed += 17;
                s.objs.push(o);
            }
            s.carousel_cycles = 12;
            s.fdt_repeats = 0;
            s.advance_every = 0;
            s.sender.fdt_carousel = CarouselSpec::DelayMs(60);
            s
        })
        .boxed()
}

pub fn run_case(c: &Case) -> CaseResult {
    let ls = build_session(&c.sess).map_err(|e| format!("HARNESS: cannot build the session: {}", e))?;
    let cy = cycles(&ls);
    let end = first_cycle_end(&cy);
    if end == 0 {
        return Ok(CaseInfo::excluded("domain: no full cycle recorded"));
    }
    let j = ((c.join as usize) * end) >> 16;
    check_join(&ls, &cy, j)
}

pub fn run(eng: &mut Engine) {
    eng.assume("'two further full cycles' after joining at packet j = up to the packet that completes the second transfer of every object that STARTED at or after j and the second complete emission (started at or after j) of an FDT instance listing each object");
    eng.assume("at least one complete copy is demanded (not exactly one: see C01 finding completed-registry-gc); every completed copy must be byte-exact with the right location and length");
    let tier = eng.tier;
    let nsess = tier.pick(30000u64, 400000u64);
    let seed = eng.seed;
    eng.chunked(
        PartCfg::new(
            "join-offsets",
            format!("{} carousel sessions (1-3 objects incl. empty / one-symbol / multi-block, all schemes, in-band or FDT-only OTI and CENC, delay / interval / zero-delay carousel, both publish modes, 12 recorded cycles); EVERY join offset within the first full cycle; non-trivial = the offset falls inside an FDT instance, an object or a block; distinct by construction (session, offset)", nsess),
            nsess * 30,
        )
        .limit_s(300),
        nsess,
        false, // exhaustive per session (every join offset), the sessions themselves are sampled
        move |c, st| {
            let strat = session_strategy();
            let sess = sample(&strat, mix(seed ^ 0xC16, c));
            let ls = match build_session(&sess) {
                Ok(l) => l,
                Err(e) => return Err((json!({"sess": sess}), format!("HARNESS: cannot build session: {}", e))),
            };
            let cy = cycles(&ls);
            let end = first_cycle_end(&cy);
            for j in 0..end {
                match check_join(&ls, &cy, j) {
                    Ok(info) => {
                        if let Some(k) = info.excluded {
                            *st.excluded.entry(k).or_insert(0) += 1;
                            continue;
                        }
                        st.evaluations += 1;
                        for l in &info.labels {
                            *st.labels.entry(l.clone()).or_insert(0) += 1;
                        }
                        if info.nontrivial {
                            st.nontrivial_count += 1;
                            if st.samples.is_empty() {
                                st.samples.push(json!({"sess": sess, "join_packet": j, "first_cycle_packets": end}));
                            }
                        }
                    }
                    Err(m) => {
                        let join = (((j * 65536) + end - 1) / end).min(65535) as u16;
                        return Err((json!(Case { sess: sess.clone(), join }), m));
                    }
                }
            }
            Ok(())
        },
    );
}

pub fn replay(part: &str, case: &Value) -> Option<CaseResult> {
    match part {
        "join-offsets" | "pinned" => Some(run_case(&serde_json::from_value(case.clone()).ok()?)),
        _ => None,
    }
}
