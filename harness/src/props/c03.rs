//! C03 No silent corruption: 'complete' always means the sender's exact bytes.

use crate::chan::*;
use crate::drive::RxSpec;
use crate::engine::*;
use crate::monitor::Faults;
use proptest::prelude::*;
use serde::{Deserialize, Serialize};
use serde_json::{json, Value};

#[derive(Debug, Clone, Serialize, Deserialize)]
pub struct Case {
    pub sess: SessSpec,
    /// delivery history: indices into the session's packets (mapped monotonically), any order,
    /// repetitions allowed
    pub order: Vec<u16>,
    pub edits: Vec<Edit>,
    pub receive_once: bool,
    /// the writer enables its MD5 check (older saved cases: on)
    #[serde(default = "yes")]
    pub md5_check: bool,
}

fn yes() -> bool {
    true
}

fn map_idx(i: u16, len: usize) -> usize {
    ((i as usize) * len) >> 16
}

pub fn check(ls: &LabeledSession, order: &[usize], edits: &[Edit], receive_once: bool, md5_check: bool) -> CaseResult {
    let mut info = CaseInfo::new();
    // payload edits only when every object announces an MD5 and the writer checks it
    let md5_all = ls.objs.iter().all(|o| o.md5);
    let edits: &[Edit] = if md5_all && md5_check { edits } else { &[] };
    let rx = RxSpec { receive_once, md5_check, max_objects_error: 8, ..RxSpec::default_once() };
    let d = deliver(ls, order, edits, &rx, Faults::none(), true)?;
    if let Some(e) = d.protocol_errors.first() {
        return Err(format!("an object instance was reported both complete and failed / out of protocol: {}", e));
    }
    let mut terminal = false;
    for w in &d.writers_after_drop {
        terminal |= w.terminal.is_some();
        if !w.completed() {
            continue;
        }
        let o = match ls.objs.iter().find(|o| o.toi == w.toi) {
            Some(o) => o,
            None => return Err(format!("a writer completed for toi {} which the sender never sent", w.toi)),
        };
        if w.data != o.bytes {
            let first = w.data.iter().zip(o.bytes.iter()).position(|(a, b)| a != b);
            return Err(format!(
                "toi {} ({:?}, k per block {:?}) reported complete with bytes that are not the sender's object: {} bytes written, {} expected, first difference at {:?}; payload edited in transit: {}; history of {} packets: {:?}",
                w.toi,
                o.scheme,
                o.k,
                w.data.len(),
                o.bytes.len(),
                first,
                d.edited_object_payload,
                order.len(),
                order
            ));
        }
        info.label("completed exact");
    }
    // "never reported both complete and failed", as the receiver itself counts: with an unedited
    // history in which every object instance that got a writer completed (before the receiver is
    // dropped), nothing may sit in the receiver's list of failed objects (max_objects_error = 8)
    if edits.is_empty() && !d.writers.is_empty() && d.writers.iter().all(|w| w.completed()) && d.objects_error > 0 {
        return Err(format!(
            "every object instance completed ({} writer(s), all complete, bytes exact) but the receiver counts {} failed object(s) (nb_objects_error): an instance is reported both complete and failed; history of {} packets: {:?}",
            d.writers.len(),
            d.objects_error,
            order.len(),
            order
        ));
    }
    let in_order = order.windows(2).all(|w| w[0] < w[1]);
    info.nt((!in_order || d.edited_object_payload) && terminal);
    info.label_if(d.edited_object_payload, "payload edited");
    info.label_if(!in_order, "reordered/duplicated");
    info.label_if(!md5_check || !md5_all, "no MD5 protection (not announced or not checked)");
    if ls.spec.objs.iter().any(|o| o.cenc != 0 && !o.inband_cenc && o.oti.as_ref().map(|t| t.inband_fti).unwrap_or(ls.spec.sender.oti.inband_fti)) {
        info.label("content encoding announced by the FDT only, FTI in-band");
    }
    info.label_if(d.writers_after_drop.iter().any(|w| w.failed()), "a writer failed");
    Ok(info)
}

pub fn run_case(c: &Case) -> CaseResult {
    let ls = build_session(&c.sess).map_err(|e| format!("HARNESS: cannot build the session: {}", e))?;
    if ls.packets.is_empty() {
        return Ok(CaseInfo::excluded("domain: empty session"));
    }
    let order: Vec<usize> = c.order.iter().map(|i| map_idx(*i, ls.packets.len())).collect();
    check(&ls, &order, &c.edits, c.receive_once, c.md5_check)
}

fn edit_strategy() -> BoxedStrategy<Edit> {
    prop_oneof![
        3 => (any::<u16>(), any::<u16>()).prop_map(|(pos, bit)| Edit::Flip { pos, bit }),
        2 => (any::<u16>(), any::<u16>()).prop_map(|(pos, keep)| Edit::Truncate { pos, keep }),
        1 => (any::<u16>(), any::<u8>()).prop_map(|(pos, n)| Edit::Extend { pos, n }),
        2 => (any::<u16>(), any::<u16>()).prop_map(|(pos, from)| Edit::SwapPayload { pos, from }),
    ]
    .boxed()
}

/// orders: uniform shuffle, block-local, reversed, "stale first", with duplicates and losses
fn order_strategy() -> BoxedStrategy<Vec<u16>> {
    prop_oneof![
        // arbitrary multiset in arbitrary order
        3 => proptest::collection::vec(any::<u16>(), 0..120),
        // full permutation-like: sorted keys + a few displaced
        3 => (proptest::collection::vec(any::<u16>(), 1..100), proptest::collection::vec((any::<u16>(), any::<u16>()), 0..6)).prop_map(|(mut v, swaps)| {
            v.sort();
            let n = v.len();
            for (a, b) in swaps {
                let (ia, ib) = (((a as usize) * n) >> 16, ((b as usize) * n) >> 16);
                v.swap(ia, ib);
            }
            v
        }),
        // reversed
        1 => proptest::collection::vec(any::<u16>(), 1..100).prop_map(|mut v| {
            v.sort();
            v.reverse();
            v
        }),
        // all packets in order, then a stale prefix again (packet of cycle 1 after cycle 2)
        2 => (0u16..200, 0u16..200).prop_map(|(n, k)| {
            let n = n.max(1) as u32;
            let mut v: Vec<u16> = (0..n).map(|i| ((i * 65536) / n) as u16).collect();
            let stale: Vec<u16> = v.iter().take(k as usize).cloned().collect();
            v.extend(stale);
            v
        }),
    ]
    .boxed()
}

pub fn case_strategy(o: SmallOpts) -> BoxedStrategy<Case> {
    (small_session_strategy(o), order_strategy(), proptest::collection::vec(edit_strategy(), 0..4), any::<bool>(), any::<bool>())
        .prop_map(|(sess, order, edits, receive_once, md5_check)| Case { sess, order, edits, receive_once, md5_check })
        .boxed()
}

fn permutations(n: usize, mut f: impl FnMut(&[usize]) -> Result<(), String>) -> Result<(), String> {
    // Heap's algorithm, iterative
    let mut a: Vec<usize> = (0..n).collect();
    let mut c = vec![0usize; n];
    f(&a)?;
    let mut i = 0;
    while i < n {
        if c[i] < i {
            if i % 2 == 0 {
                a.swap(0, i);
            } else {
                a.swap(c[i], i);
            }
            f(&a)?;
            c[i] += 1;
            i = 0;
        } else {
            c[i] = 0;
            i += 1;
        }
    }
    Ok(())
}

pub fn run(eng: &mut Engine) {
    eng.assume("payload edits (bit flip, truncation, extension, payload swap) are applied to object packets only, and only in sessions where every object announces a Content-MD5 and the writer enables the check - the property's premise");
    eng.assume("the oracle is one-directional on purpose: a history may or may not complete an object; if it completes, the bytes handed to the writer are the sender's");
    let tier = eng.tier;
    let max_p = tier.pick(7usize, 8usize);
    let nsess = tier.pick(400u64, 3000u64);
    let seed = eng.seed;
    eng.chunked(
        PartCfg::new(
            "permutations",
            format!(
                "{} tiny sessions from the session generator (all schemes, cenc, signalling); for every session with |P|<={} ALL |P|! orderings are delivered; non-trivial = the order is not the emission order and some writer reached a terminal state; distinct by construction (session, permutation)",
                nsess, max_p
            ),
            nsess * 720,
        )
        .limit_s(300),
        nsess,
        false,
        move |c, st| {
            let strat = small_session_strategy(SmallOpts { max_symbols: 3, allow_cenc: true, allow_two_objects: false, ..Default::default() });
            let sess = sample(&strat, mix(seed ^ 0xC03, c));
            let ls = match build_session(&sess) {
                Ok(l) => l,
                Err(e) => return Err((json!({"sess": sess}), format!("HARNESS: cannot build session: {}", e))),
            };
            let n = ls.packets.len();
            if n > max_p || n == 0 {
                *st.labels.entry("session too long for exhaustive permutations".into()).or_insert(0) += 1;
                return Ok(());
            }
            *st.labels.entry(format!("|P|={}", n)).or_insert(0) += 1;
            let mut fail: Option<(Value, String)> = None;
            let r = permutations(n, |perm| {
                match check(&ls, perm, &[], true, c % 2 == 0) {
                    Ok(info) => {
                        st.evaluations += 1;
                        if info.nontrivial {
                            st.nontrivial_count += 1;
                            if st.samples.is_empty() {
                                st.samples.push(json!({"sess": sess, "order": perm}));
                            }
                        }
                        Ok(())
                    }
                    Err(m) => {
                        let order: Vec<u16> = perm.iter().map(|i| ((*i * 65536 + 65535) / n).min(65535) as u16).collect();
                        fail = Some((json!(Case { sess: sess.clone(), order, edits: vec![], receive_once: true, md5_check: c % 2 == 0 }), m.clone()));
                        Err(m)
                    }
                }
            });
            match (r, fail) {
                (Err(_), Some(f)) => Err(f),
                _ => Ok(()),
            }
        },
    );
    eng.generated(
        PartCfg::new(
            "histories",
            "sessions with 1-2 objects, 1-2 transfers, all schemes x cenc x signalling; delivery history = arbitrary sub-multiset in arbitrary order (uniform, few displacements, reversed, stale packets after a full pass), with 0-3 payload edits when MD5 is announced and checked; receive-once on/off; non-trivial = not the emission order (or edited) and a writer reached a terminal state; distinct by case",
            tier.pick(120_000, 3_000_000),
        ),
        || case_strategy(SmallOpts { max_symbols: 12, allow_cenc: true, allow_repeats: true, ..Default::default() }),
        run_case,
    );
    eng.generated(
        PartCfg::new(
            "carousel",
            "carousel sessions (2 recorded cycles of the same object, FDT repeated) with histories that mix packets of different cycles; otherwise as [histories]",
            tier.pick(60_000, 1_500_000),
        ),
        || case_strategy(SmallOpts { max_symbols: 8, allow_cenc: true, carousel: true, allow_two_objects: true, ..Default::default() }),
        run_case,
    );
}

pub fn replay(part: &str, case: &Value) -> Option<CaseResult> {
    match part {
        "permutations" | "histories" | "carousel" | "pinned" => Some(run_case(&serde_json::from_value(case.clone()).ok()?)),
        _ => None,
    }
}
