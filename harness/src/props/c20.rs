//! C20 Object sources interchangeable: packets depend on the bytes, not on how they are read.

use super::common::*;
use crate::drive::*;
use crate::engine::*;
use crate::gen;
use crate::spec::*;
use proptest::prelude::*;
use serde::{Deserialize, Serialize};
use serde_json::Value;
use std::time::Duration;

#[derive(Debug, Clone, Serialize, Deserialize)]
pub struct Case {
    pub sender: SenderSpec,
    pub obj: ObjSpec,
    pub source: SourceSpec,
    pub step_ms: u64,
    /// > 0: the object is carouselled (delay 10 ms between transfers) and the run records this many
    /// complete transfers before it stops; 0: no carousel, the run ends when the object is gone
    #[serde(default)]
    pub carousel_transfers: u8,
}

fn run_with(c: &Case, source: &SourceSpec) -> Result<(Vec<Vec<u8>>, Option<Vec<StreamOp>>, usize), String> {
    let mut drv = SenderDriver::new(&c.sender)?;
    let mut o = c.obj.clone();
    o.source = source.clone();
    // whatever the stream's cursor position and whether or not an MD5 pre-pass rewinds it
    if c.obj.stream_start % 3 == 1 {
        o.md5 = false;
    }
    if c.carousel_transfers > 0 {
        o.carousel = Some(CarouselSpec::DelayMs(10));
    }
    let (_toi, _bytes) = drv.add(&o).map_err(|e| if e.contains("incompatible with the parameters of your OTI") { format!("REFUSED: {}", e) } else { e })?;
    if c.sender.full_fdt {
        drv.publish()?;
    }
    if c.carousel_transfers == 0 {
        drv.run_until_empty(Duration::from_millis(c.step_ms.max(1)), 5000, 200_000)?;
    } else {
        // a carousel never ends by itself: record the wanted number of complete transfers
        let (mut polls, mut pkts) = (0usize, 0usize);
        // (StopTransfer events are counted incrementally: the log grows by one record per packet)
        let (mut stops, mut seen) = (0usize, 0usize);
        loop {
            stops += drv.log[seen..].iter().filter(|r| matches!(r.kind, RecKind::Stop(_))).count();
            seen = drv.log.len();
            if stops >= c.carousel_transfers as usize {
                break;
            }
            match drv.read() {
                Some(_) => {
                    pkts += 1;
                    if pkts > 400_000 {
                        return Err(format!("more than {} packets without {} transfers ending", pkts, c.carousel_transfers));
                    }
                }
                None => {
                    polls += 1;
                    if polls > 20_000 {
                        return Err(format!("carousel object: only {} of {} transfers ended after {} idle polls", stops, c.carousel_transfers, polls));
                    }
                    drv.advance(Duration::from_millis(c.step_ms.max(1)));
                }
            }
        }
    }
    let pk: Vec<Vec<u8>> = drv.log.iter().filter_map(|r| r.pkt().map(|(b, _)| b.clone())).collect();
    let transfers = drv.log.iter().filter(|r| matches!(r.kind, RecKind::Stop(_))).count();
    let log = drv.keep.first().and_then(|k| k.stream_log.as_ref()).map(|l| l.lock().unwrap().clone());
    Ok((pk, log, transfers))
}

pub fn run_case(c: &Case, known: &dyn Fn(&str) -> bool) -> CaseResult {
    let mut info = CaseInfo::new();
    let eff = effective_oti(&c.sender, &c.obj).clone();
    if !eff.is_constructible() || !c.sender.oti.is_constructible() {
        return Ok(CaseInfo::excluded("domain: OTI not constructible"));
    }
    if !session_can_carry_fdt(&c.sender, std::slice::from_ref(&c.obj)) {
        return Ok(CaseInfo::excluded("domain: FDT does not fit the session OTI"));
    }
    let tl = c.obj.content.size as u64; // cenc is null for streams
    if known("raptor-small-block") && (sig_raptor_small_block(&eff, tl) || c.sender.oti.scheme == crate::rfc::fti::Scheme::Raptor) {
        return Ok(CaseInfo::excluded("raptor-small-block"));
    }
    let (reference, _, transfers) = match run_with(c, &SourceSpec::Buffer) {
        Ok(r) => r,
        Err(e) if e.starts_with("REFUSED:") => {
            // too long for its OTI: the other source kind must be refused as well
            return match run_with(c, &c.source) {
                Err(e2) if e2.starts_with("REFUSED:") => {
                    info.label("refused by both");
                    Ok(info)
                }
                Ok(_) => Err(format!("the object is refused as a buffer ({}) but accepted as {:?}", e, c.source)),
                Err(e2) => Err(e2),
            };
        }
        Err(e) => return Err(e),
    };
    let (got, log, transfers2) = run_with(c, &c.source)?;
    if transfers != transfers2 {
        return Err(format!("{:?}: {} transfers, the buffer source gives {}", c.source, transfers2, transfers));
    }
    if got.len() != reference.len() {
        return Err(format!(
            "object of {} bytes ({:?} E={} B={}, {} transfer(s)) supplied as {:?}: {} packets emitted, the same bytes supplied as a buffer give {}",
            c.obj.content.size,
            eff.scheme,
            eff.e,
            eff.b,
            c.obj.max_transfer_count,
            c.source,
            got.len(),
            reference.len()
        ));
    }
    for (i, (a, b)) in got.iter().zip(reference.iter()).enumerate() {
        if a != b {
            return Err(format!(
                "object of {} bytes ({:?} E={} B={}) supplied as {:?}: packet {} of {} differs from the packet emitted for the same bytes supplied as a buffer ({} vs {} bytes)",
                c.obj.content.size,
                eff.scheme,
                eff.e,
                eff.b,
                c.source,
                i,
                got.len(),
                a.len(),
                b.len()
            ));
        }
    }
    // the harness stream: a seek to the start precedes the reads of every transfer
    let mut short_read = false;
    if let Some(log) = &log {
        let mut seeks_to_zero = 0;
        for op in log {
            match op {
                StreamOp::Seek { to: 0 } => seeks_to_zero += 1,
                StreamOp::Read { asked, got, pos } => {
                    if *got < *asked && pos + got < c.obj.content.size {
                        short_read = true;
                    }
                }
                _ => {}
            }
        }
        if seeks_to_zero < transfers {
            return Err(format!("{} transfers but only {} seeks to the start of the stream", transfers, seeks_to_zero));
        }
    }
    let p = ref_partition(&eff, tl);
    let nblocks = p.map(|p| p.n).unwrap_or(0);
    info.nt(short_read && nblocks >= 2);
    info.label_if(short_read, "short reads");
    info.label(blocks_label(nblocks));
    info.label(format!(
        "source={}",
        match &c.source {
            SourceSpec::Buffer => "buffer",
            SourceSpec::FileCached => "file-cached",
            SourceSpec::FileStream => "file-stream",
            SourceSpec::Cursor => "cursor",
            SourceSpec::BufReaderFile(_) => "bufreader",
            SourceSpec::Chunked(_) => "chunked",
        }
    ));
    info.label_if(c.obj.max_transfer_count > 1, "transfers>=2");
    info.label_if(c.carousel_transfers > 0, "carousel");
    info.label_if(c.obj.stream_start != 0 && matches!(c.source, SourceSpec::Cursor | SourceSpec::Chunked(_)), "stream handed over with its cursor not at the start");
    Ok(info)
}

pub fn case_strategy(tier: Tier) -> BoxedStrategy<Case> {
    let oo = gen::ObjOpts { max_size: tier.pick(3000, 40_000), allow_cenc: false, allow_stream: false, rich_meta: false, ..Default::default() };
    let source = prop_oneof![
        1 => Just(SourceSpec::FileCached),
        1 => Just(SourceSpec::FileStream),
        1 => Just(SourceSpec::Cursor),
        2 => prop_oneof![Just(1usize), Just(7), Just(16), Just(100), Just(8192), 1usize..300].prop_map(SourceSpec::BufReaderFile),
        2 => prop_oneof![Just(1usize), Just(3), Just(10), 1usize..200].prop_map(|c| SourceSpec::Chunked(vec![c])),
        3 => proptest::collection::vec(1usize..120, 1..8).prop_map(SourceSpec::Chunked),
        1 => Just(SourceSpec::Chunked(vec![1])),
    ];
    (gen::session_strategy(gen::SenderOpts::default(), oo, 1), source, prop_oneof![Just(1u64), Just(100), Just(1000)], prop_oneof![3 => Just(0u8), 1 => 2u8..6])
        .prop_map(|((sender, mut objs), source, step_ms, carousel_transfers)| {
            let mut obj = objs.remove(0);
            obj.cenc = 0;
            obj.carousel = None;
            Case { sender, obj, source, step_ms, carousel_transfers }
        })
        .boxed()
}

pub fn run(eng: &mut Engine) {
    eng.assume("I/O errors (including ErrorKind::Interrupted) are not 'sizes its reads return' and are not generated; a stream is sent as is, so cenc is null");
    eng.assume("the two runs use identical configuration, TOIs and caller-supplied instants, so the packet sequences are compared byte for byte, timestamps included");
    let tier = eng.tier;
    let known = super::c01::known_fn(eng);
    eng.generated(
        PartCfg::new(
            "sources",
            "one object x OTI (5 schemes, E, B, parity, interleave) x 1-3 transfers (one case in four: carousel mode, 2-5 recorded transfers), sent once from a buffer and once from {cached file, file stream, Cursor, BufReader<File> of capacity 1..8192, harness stream returning fixed small / random / one-byte chunks}; packet sequences must be byte-identical, a seek to 0 must precede every transfer; non-trivial = a read returned fewer bytes than asked before EOF and the object has >= 2 blocks; distinct by case",
            tier.pick(100_000, 2_000_000),
        ),
        move || case_strategy(tier),
        move |c| run_case(c, &known),
    );
}

pub fn replay(part: &str, case: &Value) -> Option<CaseResult> {
    match part {
        "sources" | "pinned" => Some(run_case(&serde_json::from_value(case.clone()).ok()?, &|_| false)),
        _ => None,
    }
}
