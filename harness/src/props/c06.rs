//! C06 ALC/LCT wire format: round-trips and matches an independent RFC implementation.

use crate::engine::*;
use crate::rfc::fti::{self, Fti, PayloadId, Scheme};
use crate::rfc::lct::{self, Ext, ExtTime, LctSpec};
use crate::rfc::ntp;
use crate::rfc::pkt;
use flute::core::alc::{get_sender_current_time, parse_alc_pkt, parse_payload_id};
use flute::core::lct::Cenc;
use flute::core::{FECEncodingID, Oti};
use flute::sender::Profile;
use flute::verif as fvh;
use proptest::prelude::*;
use serde::{Deserialize, Serialize};
use serde_json::Value;
use std::time::{Duration, UNIX_EPOCH};

// NTP era 0 ends 2036-02-07T06:28:15Z
const ERA_END_UNIX: u64 = (u32::MAX as u64) - ntp::NTP_UNIX_OFFSET;

#[derive(Debug, Clone, Serialize, Deserialize)]
pub struct Fields {
    pub scheme: Scheme,
    pub e: u16,
    pub b: u32,
    pub parity: u32,
    pub instance_id: u16,
    pub z: u16,
    pub n: u16,
    pub al: u8,
    pub m: u8,
    pub g: u8,
    pub transfer_length: u64,
    #[serde(with = "crate::spec::u128s")]
    pub cci: u128,
    pub tsi: u64,
    #[serde(with = "crate::spec::u128s")]
    pub toi: u128,
    pub fdt_id: u32,
    pub cenc: u8,
    pub close_object: bool,
    pub sbn: u32,
    pub esi: u32,
    pub sbl: u16,
    pub payload_len: u16,
    /// microseconds since 1970 for EXT_TIME
    pub now_us: u64,
}

#[derive(Debug, Clone, Serialize, Deserialize)]
pub struct BuildCase {
    pub f: Fields,
    pub inband_fti: bool,
    pub inband_cenc: bool,
    pub sct: bool,
    pub rfc3926: bool,
}

fn feid(s: Scheme) -> FECEncodingID {
    match s {
        Scheme::NoCode => FECEncodingID::NoCode,
        Scheme::Raptor => FECEncodingID::Raptor,
        Scheme::Rs2m => FECEncodingID::ReedSolomonGF2M,
        Scheme::Rs28 => FECEncodingID::ReedSolomonGF28,
        Scheme::RaptorQ => FECEncodingID::RaptorQ,
        Scheme::Rs28Us => FECEncodingID::ReedSolomonGF28UnderSpecified,
    }
}

fn cenc_of(v: u8) -> Cenc {
    crate::spec::cenc_of(v)
}

/// an Oti value with every field set directly (all fields are public; the scheme specific part
/// goes through the verif hook because its enum cannot be named from outside the crate)
pub fn oti_of(f: &Fields, inband_fti: bool) -> Oti {
    let mut o = Oti::new_no_code(f.e, 1);
    o.fec_encoding_id = feid(f.scheme);
    o.fec_instance_id = f.instance_id;
    o.maximum_source_block_length = f.b;
    o.encoding_symbol_length = f.e;
    o.max_number_of_parity_symbols = f.parity;
    o.inband_fti = inband_fti;
    // RFC 5510: m = 0 / G = 0 on the wire stand for the defaults 8 / 1; an Oti value holds the real numbers
    let m = if f.m == 0 { 8 } else { f.m };
    let g = if f.g == 0 { 1 } else { f.g };
    fvh::set_scheme_specific(&mut o, &fvh::SchemeSpecificFields { z: f.z, n: f.n, al: f.al, m, g });
    o
}

fn payload_of(f: &Fields) -> Vec<u8> {
    (0..f.payload_len as usize).map(|i| (i as u8).wrapping_mul(31).wrapping_add(f.sbn as u8)).collect()
}

fn time_of(us: u64) -> std::time::SystemTime {
    UNIX_EPOCH + Duration::from_micros(us)
}

fn eq<T: PartialEq + std::fmt::Debug>(what: &str, side: &str, got: T, want: T) -> Result<(), String> {
    if got != want {
        Err(format!("{}: {} reads {:?}, expected {:?}", what, side, got, want))
    } else {
        Ok(())
    }
}

/// expected FTI (reference view) for a packet flute builds from `f`
fn expected_fti(f: &Fields) -> Fti {
    let mut x = Fti::blank(f.scheme);
    x.transfer_length = f.transfer_length;
    x.e = f.e;
    match f.scheme {
        Scheme::NoCode => x.b = f.b,
        Scheme::Rs28 => {
            x.b = f.b;
            x.max_n = f.b + f.parity;
        }
        Scheme::Rs28Us => {
            x.b = f.b;
            x.max_n = f.b + f.parity;
            x.fec_instance_id = f.instance_id;
        }
        Scheme::Rs2m => {
            x.b = f.b;
            x.max_n = f.b + f.parity;
            x.m = f.m;
            x.g = f.g;
        }
        Scheme::RaptorQ | Scheme::Raptor => {
            x.z = f.z;
            x.n = f.n;
            x.al = f.al;
        }
    }
    x
}

/// what flute must report for a (reference) FTI
fn check_flute_oti(oti: &Oti, tl: Option<u64>, x: &Fti) -> Result<(), String> {
    eq("FTI transfer length", "flute", tl, Some(x.transfer_length))?;
    eq("FTI FEC encoding id", "flute", oti.fec_encoding_id as u8, x.scheme.fec_id())?;
    eq("FTI encoding symbol length", "flute", oti.encoding_symbol_length, x.e)?;
    let ss = fvh::get_scheme_specific(oti);
    match x.scheme {
        Scheme::NoCode => eq("FTI max source block length", "flute", oti.maximum_source_block_length, x.b)?,
        Scheme::Rs28 | Scheme::Rs28Us | Scheme::Rs2m => {
            eq("FTI max source block length", "flute", oti.maximum_source_block_length, x.b)?;
            eq("FTI max_n - B (parity symbols)", "flute", oti.max_number_of_parity_symbols, x.max_n - x.b)?;
            if x.scheme == Scheme::Rs28Us {
                eq("FTI FEC instance id", "flute", oti.fec_instance_id, x.fec_instance_id)?;
            }
            if x.scheme == Scheme::Rs2m {
                let ss = ss.ok_or("flute returns no scheme specific info for RS GF(2^m)")?;
                // RFC 5510 §4.2.3: m = 0 and G = 0 stand for the defaults 8 and 1
                eq("FTI m", "flute", ss.m, if x.m == 0 { 8 } else { x.m })?;
                eq("FTI G", "flute", ss.g, if x.g == 0 { 1 } else { x.g })?;
            }
        }
        Scheme::RaptorQ | Scheme::Raptor => {
            let ss = ss.ok_or("flute returns no scheme specific info for Raptor/RaptorQ")?;
            eq("FTI Z", "flute", ss.z, x.z)?;
            eq("FTI N", "flute", ss.n, x.n)?;
            eq("FTI Al", "flute", ss.al, x.al)?;
        }
    }
    Ok(())
}

fn sct_check(what: &str, got_ns: u128, orig_us: u64) -> Result<(), String> {
    let orig_ns = orig_us as u128 * 1000;
    let diff = if got_ns > orig_ns { got_ns - orig_ns } else { orig_ns - got_ns };
    if diff > 1000 {
        return Err(format!("sender current time: {} gives {} ns, original {} ns (off by {} ns > 1 us)", what, got_ns, orig_ns, diff));
    }
    Ok(())
}

/// Direction 1: flute builds, the reference decodes, flute parses back.
pub fn check_build(c: &BuildCase) -> CaseResult {
    let f = &c.f;
    let mut info = CaseInfo::new();
    let oti = oti_of(f, c.inband_fti);
    let payload = payload_of(f);
    let fields = fvh::PktFields {
        payload: payload.clone(),
        transfer_length: f.transfer_length,
        esi: f.esi,
        sbn: f.sbn,
        toi: f.toi,
        fdt_id: if f.toi == 0 { Some(f.fdt_id) } else { None },
        cenc: cenc_of(f.cenc),
        inband_cenc: c.inband_cenc,
        close_object: f.close_object,
        source_block_length: f.sbl as u32,
        sender_current_time: c.sct,
    };
    let profile = if c.rfc3926 { Profile::RFC3926 } else { Profile::RFC6726 };
    let now = time_of(f.now_us);
    let bytes = fvh::new_alc_pkt(&oti, &f.cci, f.tsi, &fields, profile, now);

    // ---- reference decode
    let d = pkt::decode(&bytes, f.m).map_err(|e| format!("packet built by flute is not decodable per RFC: {} (bytes {:02x?})", e, &bytes[..bytes.len().min(48)]))?;
    eq("LCT version", "reference", d.lct.version, 1)?;
    eq("CCI", "reference", d.lct.cci, f.cci)?;
    eq("TSI", "reference", d.lct.tsi, f.tsi)?;
    eq("TOI", "reference", d.lct.toi, f.toi)?;
    eq("codepoint", "reference", d.lct.cp, f.scheme.fec_id())?;
    eq("close object flag", "reference", d.lct.close_object, f.close_object)?;
    eq("close session flag", "reference", d.lct.close_session, false)?;
    eq("reserved bits", "reference", d.lct.res, 0)?;
    eq("PSI bits", "reference", d.lct.psi, 0)?;
    if f.toi == 0 {
        eq("EXT_FDT (version, instance id)", "reference", d.fdt, Some((if c.rfc3926 { 1 } else { 2 }, f.fdt_id)))?;
    } else {
        eq("EXT_FDT on an object packet", "reference", d.fdt, None)?;
    }
    let want_cenc = if (f.toi == 0 && f.cenc != 0) || c.inband_cenc { Some(f.cenc) } else { None };
    eq("EXT_CENC", "reference", d.cenc, want_cenc)?;
    let want_fti = f.toi == 0 || c.inband_fti;
    if want_fti {
        let x = expected_fti(f);
        eq("EXT_FTI", "reference", d.fti.clone(), Some(x))?;
    } else {
        eq("EXT_FTI", "reference", d.fti.is_some(), false)?;
    }
    match (&d.time, c.sct) {
        (None, false) => {}
        (Some(t), true) => {
            let hi = t.sct_hi.ok_or("EXT_TIME without SCT-High")?;
            let low = t.sct_low.unwrap_or(0);
            let ns = ntp::to_unix_nanos(hi, low).ok_or("SCT before 1970")?;
            sct_check("reference decoding of EXT_TIME", ns, f.now_us)?;
            if t.ert.is_some() || t.slc.is_some() {
                return Err("EXT_TIME carries ERT/SLC which flute never sets".into());
            }
        }
        (got, want) => return Err(format!("EXT_TIME presence: reference sees {:?}, sender_current_time={}", got.is_some(), want)),
    }
    let want_pid = PayloadId { sbn: f.sbn, esi: f.esi, sbl: if f.scheme == Scheme::Rs28Us { Some(f.sbl) } else { None } };
    eq("FEC payload id", "reference", d.pid, want_pid)?;
    if d.payload != payload {
        return Err(format!("payload: reference sees {} bytes, {} were given", d.payload.len(), payload.len()));
    }

    // ---- flute parses its own packet
    let p = parse_alc_pkt(&bytes).map_err(|e| format!("flute cannot parse the packet it built: {}", e.0))?;
    eq("CCI", "flute", p.lct.cci, f.cci)?;
    eq("TSI", "flute", p.lct.tsi, f.tsi)?;
    eq("TOI", "flute", p.lct.toi, f.toi)?;
    eq("codepoint", "flute", p.lct.cp, f.scheme.fec_id())?;
    eq("close object flag", "flute", p.lct.close_object, f.close_object)?;
    eq("close session flag", "flute", p.lct.close_session, false)?;
    eq("EXT_CENC", "flute", p.cenc.map(|c| c as u8), want_cenc)?;
    if f.toi == 0 {
        let fi = p.fdt_info.as_ref().ok_or("flute lost EXT_FDT")?;
        eq("EXT_FDT version", "flute", fi.version, if c.rfc3926 { 1 } else { 2 })?;
        eq("EXT_FDT instance id", "flute", fi.fdt_instance_id, f.fdt_id)?;
    }
    if want_fti {
        let got = p.oti.as_ref().ok_or("flute lost EXT_FTI")?;
        check_flute_oti(got, p.transfer_length, &expected_fti(f))?;
    } else {
        eq("EXT_FTI", "flute", p.oti.is_some(), false)?;
    }
    let pid = parse_payload_id(&p, &oti).map_err(|e| format!("flute cannot parse its payload id: {}", e.0))?;
    eq("SBN", "flute", pid.sbn, f.sbn)?;
    eq("ESI", "flute", pid.esi, f.esi)?;
    if f.scheme == Scheme::Rs28Us {
        eq("source block length", "flute", pid.source_block_length, Some(f.sbl as u32))?;
    }
    eq("payload", "flute", &bytes[p.data_payload_offset..], &payload[..])?;
    let t = get_sender_current_time(&p).map_err(|e| format!("flute cannot parse its EXT_TIME: {}", e.0))?;
    match (t, c.sct) {
        (None, false) => {}
        (Some(t), true) => sct_check("flute's get_sender_current_time", ntp::system_time_nanos(t), f.now_us)?,
        (got, want) => return Err(format!("EXT_TIME presence: flute sees {:?}, sender_current_time={}", got.is_some(), want)),
    }
    label_fields(f, &mut info);
    info.label_if(c.sct, "EXT_TIME");
    info.label_if(want_fti, "EXT_FTI");
    info.label_if(want_cenc.is_some(), "EXT_CENC");
    Ok(info)
}

fn bits128(v: u128) -> u32 {
    128 - v.leading_zeros()
}

fn label_fields(f: &Fields, info: &mut CaseInfo) {
    let cb = bits128(f.cci);
    let tb = bits128(f.tsi as u128);
    let ob = bits128(f.toi);
    info.label(format!("cci<={}", [0, 32, 64, 96, 128].iter().find(|x| cb <= **x).unwrap()));
    info.label(format!("tsi<={}", [16, 32, 48].iter().find(|x| tb <= **x).unwrap_or(&64)));
    info.label(format!("toi<={}", [16, 32, 48, 64, 80, 96, 112].iter().find(|x| ob <= **x).unwrap_or(&128)));
    info.label(super::common::scheme_label(f.scheme));
    // anything but the suite's class (CCI <= 48 bit, TSI 48, TOI 16, no extension beyond FTI/CENC)
    info.nt(cb > 48 || tb <= 32 || ob > 16 || f.toi == 0);
}

// ------------------------------------------------------------------------------------------
// Direction 2: the reference builds, flute parses.

#[derive(Debug, Clone, Serialize, Deserialize)]
pub struct RefCase {
    pub f: Fields,
    pub psi: u8,
    pub res: u8,
    /// field width flags actually used (>= the minimum the values need)
    pub c: u8,
    pub s: u8,
    pub o: u8,
    pub h: u8,
    pub close_session: bool,
    pub with_fti: bool,
    pub with_cenc: bool,
    pub with_fdt: bool,
    pub fdt_version: u8,
    /// None / SCT-High only / High+Low, plus optional ERT and SLC words
    pub time: Option<(bool, Option<u32>, Option<u32>)>,
    /// unknown extensions: (HET, words, fill) - HET<128 variable length, HET>=128 one word
    pub unknown: Vec<(u8, u8, u8)>,
    /// rotation applied to the extension list (order must not matter)
    pub rot: u8,
}

pub fn widths_fit(c: &RefCase) -> bool {
    let spec = LctSpec {
        version: 1,
        psi: 0,
        res: 0,
        c: c.c,
        cci: c.f.cci,
        s: c.s,
        o: c.o,
        h: c.h,
        tsi: c.f.tsi,
        toi: c.f.toi,
        cp: 0,
        close_session: false,
        close_object: false,
        exts: vec![],
    };
    lct::width_ok(&spec)
}

pub fn check_ref(c: &RefCase) -> CaseResult {
    let f = &c.f;
    let mut info = CaseInfo::new();
    if !widths_fit(c) {
        return Ok(CaseInfo::excluded("domain: value wider than the chosen field"));
    }
    let x = expected_fti(f);
    let mut exts: Vec<Ext> = vec![];
    if c.with_fdt && f.toi == 0 {
        exts.push(lct::ext_fdt(c.fdt_version, f.fdt_id));
    }
    if c.with_cenc {
        exts.push(lct::ext_cenc(f.cenc));
    }
    let mut want_time_ns: Option<u128> = None;
    let mut time_has_sct = false;
    if let Some((low, ert, slc)) = c.time {
        let (hi, lo) = ntp::from_unix_nanos(f.now_us as u128 * 1000).ok_or("time outside NTP era 0")?;
        let t = ExtTime { sct_hi: Some(hi), sct_low: if low { Some(lo) } else { None }, ert, slc };
        exts.push(lct::ext_time(&t));
        want_time_ns = ntp::to_unix_nanos(hi, if low { lo } else { 0 });
        time_has_sct = true;
    }
    if c.with_fti {
        exts.push(fti::encode(&x));
    }
    for (het, words, fill) in &c.unknown {
        if *het >= 128 {
            exts.push(lct::ext_unknown_fixed(*het, [*fill, fill.wrapping_add(1), fill.wrapping_add(2)]));
        } else {
            exts.push(lct::ext_unknown_var(*het, (*words).max(1), *fill));
        }
    }
    if !exts.is_empty() {
        let r = c.rot as usize % exts.len();
        exts.rotate_left(r);
    }
    let spec = LctSpec {
        version: 1,
        psi: c.psi & 3,
        res: c.res & 3,
        c: c.c,
        cci: f.cci,
        s: c.s,
        o: c.o,
        h: c.h,
        tsi: f.tsi,
        toi: f.toi,
        cp: f.scheme.fec_id(),
        close_session: c.close_session,
        close_object: f.close_object,
        exts,
    };
    let hdr_words = {
        let fixed = 1 + (c.c as usize + 1) + c.s as usize + c.o as usize + c.h as usize;
        fixed + spec.exts.iter().map(|e| e.bytes.len() / 4).sum::<usize>()
    };
    if hdr_words > 255 {
        return Ok(CaseInfo::excluded("domain: header longer than 255 words"));
    }
    let mut bytes = lct::build(&spec);
    let want_pid = PayloadId { sbn: f.sbn, esi: f.esi, sbl: if f.scheme == Scheme::Rs28Us { Some(f.sbl) } else { None } };
    bytes.extend_from_slice(&fti::encode_payload_id(f.scheme, f.m, &want_pid));
    let payload = payload_of(f);
    bytes.extend_from_slice(&payload);
    // sanity: the reference decodes its own packet
    let d = pkt::decode(&bytes, f.m).map_err(|e| format!("HARNESS: reference cannot decode its own packet: {}", e))?;
    if d.lct.toi != f.toi || d.lct.tsi != f.tsi || d.lct.cci != f.cci || d.pid != want_pid {
        return Err("HARNESS: reference round trip mismatch".into());
    }

    let p = parse_alc_pkt(&bytes).map_err(|e| {
        format!(
            "flute rejects a packet that is valid per RFC 5651/5775 ({}): header words={}, extensions (HET:words) {:?}",
            e.0,
            hdr_words,
            spec.exts.iter().map(|e| format!("{}:{}", e.het, e.bytes.len() / 4)).collect::<Vec<_>>()
        )
    })?;
    eq("CCI", "flute", p.lct.cci, f.cci)?;
    eq("TSI", "flute", p.lct.tsi, f.tsi)?;
    eq("TOI", "flute", p.lct.toi, f.toi)?;
    eq("codepoint", "flute", p.lct.cp, f.scheme.fec_id())?;
    eq("close object flag", "flute", p.lct.close_object, f.close_object)?;
    eq("close session flag", "flute", p.lct.close_session, c.close_session)?;
    if c.with_cenc {
        // a CENC value flute does not implement is flute policy (it reports none), not a format question
        if f.cenc <= 3 {
            eq("EXT_CENC", "flute", p.cenc.map(|c| c as u8), Some(f.cenc))?;
        }
    } else {
        eq("EXT_CENC", "flute", p.cenc.map(|c| c as u8), None)?;
    }
    if c.with_fdt && f.toi == 0 {
        let fi = p.fdt_info.as_ref().ok_or("flute does not see EXT_FDT")?;
        eq("EXT_FDT version", "flute", fi.version, c.fdt_version as u32)?;
        eq("EXT_FDT instance id", "flute", fi.fdt_instance_id, f.fdt_id)?;
    } else {
        eq("EXT_FDT", "flute", p.fdt_info.is_some(), false)?;
    }
    let oti_for_pid = if c.with_fti {
        let got = p.oti.clone().ok_or("flute does not see EXT_FTI")?;
        check_flute_oti(&got, p.transfer_length, &x)?;
        got
    } else {
        eq("EXT_FTI", "flute", p.oti.is_some(), false)?;
        oti_of(f, false)
    };
    let pid = parse_payload_id(&p, &oti_for_pid).map_err(|e| format!("flute cannot parse the payload id: {}", e.0))?;
    eq("SBN", "flute", pid.sbn, f.sbn)?;
    eq("ESI", "flute", pid.esi, f.esi)?;
    if f.scheme == Scheme::Rs28Us {
        eq("source block length", "flute", pid.source_block_length, Some(f.sbl as u32))?;
    }
    eq("payload", "flute", &bytes[p.data_payload_offset..], &payload[..])?;
    let t = get_sender_current_time(&p).map_err(|e| format!("flute cannot parse a valid EXT_TIME: {}", e.0))?;
    match (t, time_has_sct) {
        (None, false) => {}
        (Some(t), true) => {
            let got = ntp::system_time_nanos(t);
            let want = want_time_ns.unwrap();
            let diff = if got > want { got - want } else { want - got };
            if diff > 1000 {
                return Err(format!("sender current time: flute reads {} ns, the reference encoded {} ns (off by {} ns)", got, want, diff));
            }
        }
        (got, want) => return Err(format!("EXT_TIME: flute sees a time: {:?}, reference put one: {}", got.is_some(), want)),
    }
    label_fields(f, &mut info);
    info.nt(true);
    let maxw = c.unknown.iter().filter(|u| u.0 < 128).map(|u| u.1).max().unwrap_or(0);
    info.label_if(!c.unknown.is_empty(), "unknown extension");
    info.label_if(maxw >= 64, "unknown extension HEL>=64");
    info.label_if(c.psi != 0 || c.res != 0, "PSI/reserved bits set");
    info.label_if(c.time.is_some(), "EXT_TIME");
    Ok(info)
}

// ------------------------------------------------------------------------------------------
// generators

fn width_value(bits_hi: u32) -> BoxedStrategy<u128> {
    // values that need more than bits_hi-16 bits and at most bits_hi bits, boundary biased
    let lo: u32 = bits_hi.saturating_sub(16);
    let mask: u128 = if bits_hi >= 128 { u128::MAX } else { (1u128 << bits_hi) - 1 };
    let floor: u128 = if lo == 0 { 0 } else { 1u128 << lo };
    prop_oneof![
        Just(floor),
        Just(floor + 1),
        Just(mask),
        Just(mask - 1),
        Just(0xAAAA_AAAA_AAAA_AAAA_AAAA_AAAA_AAAA_AAAAu128 & mask | floor),
        Just(0x5555_5555_5555_5555_5555_5555_5555_5555u128 & mask | floor),
        any::<u128>().prop_map(move |v| (v & mask) | floor),
    ]
    .boxed()
}

fn cci_strategy() -> BoxedStrategy<u128> {
    prop_oneof![Just(0u128), width_value(16), width_value(32), width_value(48), width_value(64), width_value(96), width_value(128)].boxed()
}

fn tsi_strategy() -> BoxedStrategy<u64> {
    prop_oneof![width_value(16), width_value(32), width_value(48)].prop_map(|v| v as u64).boxed()
}

fn toi_strategy() -> BoxedStrategy<u128> {
    prop_oneof![
        2 => Just(0u128),
        2 => width_value(16),
        1 => width_value(32),
        1 => width_value(48),
        1 => width_value(64),
        1 => width_value(80),
        1 => width_value(96),
        1 => width_value(112),
    ]
    .boxed()
}


pub fn fields_strategy(schemes: &'static [Scheme]) -> BoxedStrategy<Fields> {
    let scheme = proptest::sample::select(schemes);
    (scheme, cci_strategy(), tsi_strategy(), toi_strategy(), any::<[u64; 6]>(), any::<[u8; 8]>(), 0u64..=(ERA_END_UNIX * 1_000_000 + 999_999), 0u8..8)
        .prop_map(|(scheme, cci, tsi, toi, r, sel, now_us, tmode)| {
            let pick = |raw: u64, max: u64, s: u8| -> u64 {
                match s % 6 {
                    0 => 0,
                    1 => 1.min(max),
                    2 => max,
                    3 => max.saturating_sub(1),
                    4 => (max / 2 + 1).min(max),
                    _ => raw % (max as u128 + 1) as u64,
                }
            };
            let al = [1u8, 2, 4, 8, 16, 255][(sel[0] % 6) as usize];
            let is_rq = matches!(scheme, Scheme::RaptorQ | Scheme::Raptor);
            let e = if is_rq {
                // multiple of Al, non-zero
                let k = pick(r[0], 65535 / al as u64, sel[1]).max(1);
                (k * al as u64) as u16
            } else {
                pick(r[0], 65535, sel[1]) as u16
            };
            let (bmax, nmax): (u64, u64) = match scheme {
                Scheme::NoCode => (u32::MAX as u64, u32::MAX as u64),
                Scheme::Rs28 => (255, 255),
                Scheme::Rs28Us | Scheme::Rs2m => (65535, 65535),
                _ => (65535, 65535),
            };
            let b = pick(r[1], bmax, sel[2]) as u32;
            let parity = if scheme == Scheme::NoCode { 0 } else { pick(r[2], nmax - b as u64, sel[3]) as u32 };
            let tl_max = if is_rq { (1u64 << 40) - 1 } else { (1u64 << 48) - 1 };
            let transfer_length = pick(r[3], tl_max, sel[4]);
            let m = if scheme == Scheme::Rs2m { [0u8, 2, 4, 8, 12, 16][(sel[5] % 6) as usize] } else { 0 };
            let (sbits, ebits) = fti::payload_id_bits(scheme, m);
            let sbn = pick(r[4], ((1u64 << sbits) - 1).min(u32::MAX as u64), sel[6]) as u32;
            let esi = pick(r[5], (1u64 << ebits) - 1, sel[7]) as u32;
            let now_us = match tmode {
                0 => 0,
                1 => ERA_END_UNIX * 1_000_000 + 999_999,
                2 => ERA_END_UNIX * 1_000_000,
                3 => now_us / 1_000_000 * 1_000_000,
                4 => now_us / 1_000_000 * 1_000_000 + 999_999,
                5 => now_us / 1_000_000 * 1_000_000 + 1,
                _ => now_us,
            };
            Fields {
                scheme,
                e,
                b,
                parity,
                instance_id: (r[2] >> 32) as u16,
                z: if scheme == Scheme::RaptorQ { (pick(r[1] >> 7, 254, sel[2]) + 1) as u16 } else { (pick(r[1] >> 7, 65534, sel[2]) + 1) as u16 },
                n: if scheme == Scheme::Raptor { pick(r[2] >> 9, 255, sel[3]) as u16 } else { pick(r[2] >> 9, 65535, sel[3]) as u16 },
                al,
                m,
                g: (r[4] >> 40) as u8,
                transfer_length,
                cci,
                tsi,
                toi,
                fdt_id: pick(r[5] >> 24, (1 << 20) - 1, sel[0] / 6) as u32,
                cenc: sel[1] / 6 % 4,
                close_object: sel[2] / 6 % 2 == 1,
                sbn,
                esi,
                sbl: (r[0] >> 40) as u16,
                payload_len: (r[3] >> 50) as u16 % 40,
                now_us,
            }
        })
        .boxed()
}

const BUILD_SCHEMES: [Scheme; 5] = [Scheme::NoCode, Scheme::Rs28, Scheme::Rs28Us, Scheme::RaptorQ, Scheme::Raptor];
const PARSE_SCHEMES: [Scheme; 6] = [Scheme::NoCode, Scheme::Rs28, Scheme::Rs28Us, Scheme::RaptorQ, Scheme::Raptor, Scheme::Rs2m];

pub fn build_strategy() -> BoxedStrategy<BuildCase> {
    (fields_strategy(&BUILD_SCHEMES), any::<bool>(), any::<bool>(), any::<bool>(), any::<bool>())
        .prop_map(|(f, inband_fti, inband_cenc, sct, rfc3926)| BuildCase { f, inband_fti, inband_cenc, sct, rfc3926 })
        .boxed()
}

fn min_flags(f: &Fields) -> (u8, u8, u8, u8) {
    let c = match bits128(f.cci) {
        0..=32 => 0,
        33..=64 => 1,
        65..=96 => 2,
        _ => 3,
    };
    let (s, o, h) = lct::minimal_widths(f.tsi, f.toi);
    (c, s, o, h)
}

pub fn ref_strategy() -> BoxedStrategy<RefCase> {
    let unknown = proptest::collection::vec(
        (
            prop_oneof![
                // variable-length HETs other than EXT_NOP(0)/EXT_AUTH(1)/EXT_TIME(2)/EXT_FTI(64)
                3 => (3u8..128).prop_filter("not FTI", |h| *h != 64),
                1 => Just(0u8),
                1 => Just(1u8),
                // fixed-length HETs other than EXT_FDT(192)/EXT_CENC(193)
                2 => (128u8..=255).prop_filter("not FDT/CENC", |h| *h != 192 && *h != 193),
            ],
            prop_oneof![4 => 1u8..8, 2 => Just(63u8), 2 => Just(64u8), 1 => Just(65u8), 1 => 64u8..=200],
            any::<u8>(),
        ),
        0..3,
    );
    (
        fields_strategy(&PARSE_SCHEMES),
        any::<[u8; 4]>(),
        any::<[bool; 5]>(),
        prop_oneof![Just(1u8), Just(2u8), 0u8..16],
        proptest::option::weighted(0.5, (any::<bool>(), proptest::option::weighted(0.2, any::<u32>()), proptest::option::weighted(0.2, any::<u32>()))),
        unknown,
        any::<u8>(),
    )
        .prop_map(|(f, w, flags, fdt_version, time, unknown, rot)| {
            let (c0, s0, o0, h0) = min_flags(&f);
            // optionally wider than necessary
            let c = (c0 + w[0] % 2).min(3);
            let h = if w[1] % 3 == 0 { 1 } else { h0 };
            let s = if w[2] % 3 == 0 { 1 } else { s0 };
            let o = (o0 + w[3] % 2).min(3);
            RefCase {
                f,
                psi: w[0] >> 6,
                res: w[1] >> 6,
                c,
                s,
                o,
                h,
                close_session: flags[0] && flags[1],
                with_fti: flags[2],
                with_cenc: flags[3],
                with_fdt: flags[4],
                fdt_version,
                time,
                unknown,
                rot,
            }
        })
        .boxed()
}

// ------------------------------------------------------------------------------------------
// exhaustive product of field-width classes

/// (CCI class 0..5) x (TSI class 0..3) x (TOI class 0..8 incl. TOI 0) x B flag x scheme x
/// (inband cenc, sct, inband fti) with 4 boundary values per class
pub const CLASS_TOTAL: u64 = 5 * 3 * 8 * 2 * 5 * 8 * 4;

fn class_val(bits_hi: u32, variant: u64) -> u128 {
    if bits_hi == 0 {
        return 0;
    }
    let lo = bits_hi.saturating_sub(16);
    let mask: u128 = if bits_hi >= 128 { u128::MAX } else { (1u128 << bits_hi) - 1 };
    let floor: u128 = if lo == 0 { 1 } else { 1u128 << lo };
    match variant {
        0 => floor,
        1 => mask,
        2 => (0xAAAA_AAAA_AAAA_AAAA_AAAA_AAAA_AAAA_AAAAu128 & mask) | floor,
        _ => (0x0123_4567_89AB_CDEF_FEDC_BA98_7654_3210u128 & mask) | floor,
    }
}

pub fn class_case(i: u64) -> BuildCase {
    let mut x = i;
    let mut take = |n: u64| {
        let v = x % n;
        x /= n;
        v
    };
    let variant = take(4);
    let ext = take(8);
    let scheme = BUILD_SCHEMES[take(5) as usize];
    let b = take(2) == 1;
    let toi_c = take(8);
    let tsi_c = take(3);
    let cci_c = take(5);
    let cci = class_val([0, 32, 64, 96, 128][cci_c as usize], variant);
    let tsi = class_val([16, 32, 48][tsi_c as usize], variant) as u64;
    let toi = if toi_c == 0 { 0 } else { class_val([16, 32, 48, 64, 80, 96, 112][toi_c as usize - 1], variant) };
    let is_rq = matches!(scheme, Scheme::RaptorQ | Scheme::Raptor);
    let f = Fields {
        scheme,
        e: if is_rq { 1024 } else { [1u16, 65535, 1400, 255][variant as usize] },
        b: match scheme {
            Scheme::Rs28 => [1u32, 255, 64, 128][variant as usize],
            _ => [1u32, 65535, 64, 32768][variant as usize],
        },
        parity: match scheme {
            Scheme::NoCode => 0,
            Scheme::Rs28 => [0u32, 0, 191, 127][variant as usize],
            _ => [0u32, 0, 65471, 32767][variant as usize],
        },
        instance_id: [0u16, 65535, 1, 0x8000][variant as usize],
        z: if scheme == Scheme::RaptorQ { [1u16, 255, 7, 128][variant as usize] } else { [1u16, 65535, 7, 32768][variant as usize] },
        n: if scheme == Scheme::Raptor { [1u16, 255, 3, 128][variant as usize] } else { [1u16, 65535, 3, 32768][variant as usize] },
        al: [1u8, 4, 8, 2][variant as usize],
        m: 0,
        g: 0,
        transfer_length: if is_rq { [0u64, (1 << 40) - 1, 1, 1 << 39][variant as usize] } else { [0u64, (1 << 48) - 1, 1, 1 << 47][variant as usize] },
        cci,
        tsi,
        toi,
        fdt_id: [0u32, (1 << 20) - 1, 1, 1 << 19][variant as usize],
        cenc: (variant % 4) as u8,
        close_object: b,
        sbn: match scheme {
            Scheme::RaptorQ => [0u32, 255, 1, 128][variant as usize],
            Scheme::Rs28 => [0u32, (1 << 24) - 1, 1, 1 << 23][variant as usize],
            Scheme::Rs28Us => [0u32, u32::MAX, 1, 1 << 31][variant as usize],
            _ => [0u32, 65535, 1, 32768][variant as usize],
        },
        esi: match scheme {
            Scheme::RaptorQ => [0u32, (1 << 24) - 1, 1, 1 << 23][variant as usize],
            Scheme::Rs28 => [0u32, 255, 1, 128][variant as usize],
            _ => [0u32, 65535, 1, 32768][variant as usize],
        },
        sbl: [0u16, 65535, 1, 32768][variant as usize],
        payload_len: [0u16, 1, 16, 3][variant as usize],
        now_us: [0u64, ERA_END_UNIX * 1_000_000 + 999_999, 1_700_000_000_123_456, 1][variant as usize],
    };
    BuildCase { f, inband_cenc: ext & 1 != 0, sct: ext & 2 != 0, inband_fti: ext & 4 != 0, rfc3926: variant % 2 == 1 }
}

// ------------------------------------------------------------------------------------------
// public header builder (core::lct::push_lct_header) against the reference decoder

#[derive(Debug, Clone, Serialize, Deserialize)]
pub struct HdrCase {
    pub psi: u8,
    #[serde(with = "crate::spec::u128s")]
    pub cci: u128,
    pub tsi: u64,
    #[serde(with = "crate::spec::u128s")]
    pub toi: u128,
    pub cp: u8,
    pub b: bool,
    pub a: bool,
}

pub fn check_hdr(c: &HdrCase) -> CaseResult {
    let mut v = vec![];
    flute::core::lct::push_lct_header(&mut v, c.psi, &c.cci, c.tsi, &c.toi, c.cp, c.b, c.a);
    let d = lct::decode(&v).map_err(|e| format!("push_lct_header output is not a valid LCT header: {} ({:02x?})", e, v))?;
    eq("version", "reference", d.version, 1)?;
    eq("PSI", "reference", d.psi, c.psi & 3)?;
    eq("CCI", "reference", d.cci, c.cci)?;
    eq("TSI", "reference", d.tsi, c.tsi)?;
    eq("TOI", "reference", d.toi, c.toi)?;
    eq("codepoint", "reference", d.cp, c.cp)?;
    eq("close object", "reference", d.close_object, c.b)?;
    eq("close session", "reference", d.close_session, c.a)?;
    eq("reserved bits", "reference", d.res, 0)?;
    eq("header length = HDR_LEN", "reference", d.header_len, v.len())?;
    let mut info = CaseInfo::new();
    info.nt(bits128(c.cci) > 48 || bits128(c.tsi as u128) <= 32 || bits128(c.toi) > 16);
    Ok(info)
}

pub fn hdr_strategy() -> BoxedStrategy<HdrCase> {
    (0u8..4, cci_strategy(), tsi_strategy(), toi_strategy(), any::<u8>(), any::<bool>(), any::<bool>())
        .prop_map(|(psi, cci, tsi, toi, cp, b, a)| HdrCase { psi, cci, tsi, toi, cp, b, a })
        .boxed()
}

pub fn run(eng: &mut Engine) {
    eng.assume("reference codecs in harness/src/rfc are my own transcription of RFC 5651 §5, RFC 5775, RFC 6726 §3.4, RFC 5445, RFC 5510, RFC 6330 §3; Raptor (FEC 1) EXT_FTI mirrors flute's 40-bit layout because the RFC 5053 figure could not be consulted offline - that one layout is therefore a self-consistency check only");
    eng.assume("domain: TSI < 2^48, TOI < 2^112, PSI <= 3, field values inside their wire width (the builder does not range-check), times inside NTP era 0 at whole microseconds");
    eng.enumerated(
        PartCfg::new(
            "classes",
            "exhaustive product CCI{0,32,64,96,128 bit} x TSI{16,32,48} x TOI{0,16..112} x B flag x 5 schemes x {EXT_CENC,EXT_TIME,EXT_FTI subsets} x 4 boundary value sets; flute builds, the reference decodes every field, flute parses back; non-trivial = any class other than the suite's (CCI<=48, TSI 48, TOI 16); distinct by class index",
            CLASS_TOTAL,
        ),
        CLASS_TOTAL,
        class_case,
        check_build,
    );
    let tier = eng.tier;
    eng.generated(
        PartCfg::new(
            "build",
            "flute builds (verif::new_alc_pkt) from boundary-biased random field values incl. every FTI field per scheme, payload ids over the scheme's SBN/ESI range, SCT 1970..2036; reference decodes and flute parses back; non-trivial/distinct as in [classes]",
            tier.pick(1_000_000, 20_000_000),
        ),
        build_strategy,
        check_build,
    );
    eng.generated(
        PartCfg::new(
            "foreign",
            "the reference builds: non-minimal field widths, PSI/reserved bits set, unknown extensions (HET 0..255 except the four known; HEL up to 200 words) in any order, EXT_TIME with SCT-High only / High+Low / ERT / SLC, all six FEC ids; flute must parse identical values; non-trivial = every case (none of this is reachable by flute talking to itself)",
            tier.pick(1_000_000, 20_000_000),
        ),
        ref_strategy,
        check_ref,
    );
    eng.generated(
        PartCfg::new(
            "header",
            "core::lct::push_lct_header with arbitrary PSI/CCI/TSI/TOI/codepoint/flags decoded by the reference LCT decoder; non-trivial as in [classes]",
            tier.pick(300_000, 5_000_000),
        ),
        hdr_strategy,
        check_hdr,
    );
    eng.generated(
        PartCfg::new(
            "sender",
            "real sessions (any sender configuration: profile, TSI/TOI widths and initial values, FDT start id - half of them within 3 of the 2^20 wrap -, cenc, in-band SCT; 1-2 small objects; 1-3 publications): every datagram returned by Sender::read decodes with the reference, flute parses the same values back, TSI / TOI / codepoint / EXT_FDT version and consecutive instance ids / sender current time are what the configuration implies; non-trivial = the instance id wraps, a TOI >= 2^16, the RFC 3926 profile or a TSI >= 2^16; distinct by case",
            tier.pick(20_000, 600_000),
        ),
        sender_case_strategy,
        check_sender,
    );
}

// ------------------------------------------------------------------------------------------
// packets as Sender::read returns them: every datagram decodes with the reference to the values the
// configuration implies and flute parses the same values back

#[derive(Debug, Clone, Serialize, Deserialize)]
pub struct SenderCase {
    pub sender: crate::spec::SenderSpec,
    pub objs: Vec<crate::spec::ObjSpec>,
    /// explicit publications before draining (FullFDT) and republications afterwards
    pub publishes: u8,
}

pub fn check_sender(c: &SenderCase) -> CaseResult {
    use crate::drive::*;
    use crate::props::common::*;
    let mut info = CaseInfo::new();
    if !c.sender.oti.is_constructible() || c.objs.iter().any(|o| !effective_oti(&c.sender, o).is_constructible()) {
        return Ok(CaseInfo::excluded("domain: OTI not constructible"));
    }
    if !session_can_carry_fdt(&c.sender, &c.objs) {
        return Ok(CaseInfo::excluded("domain: FDT does not fit the session OTI"));
    }
    let known = crate::engine::load_known();
    let open = |k: &str| known.iter().any(|x| x.key == k && x.status == "open");
    if open("raptor-small-block")
        && (c.sender.oti.scheme == Scheme::Raptor
            || c.objs.iter().any(|o| {
                let eff = effective_oti(&c.sender, o);
                eff.scheme == Scheme::Raptor && (o.cenc != 0 || sig_raptor_small_block(eff, o.content.size as u64))
            }))
    {
        return Ok(CaseInfo::excluded("raptor-small-block"));
    }
    let mut drv = SenderDriver::new(&c.sender)?;
    let mut tois: std::collections::BTreeMap<u128, Scheme> = Default::default();
    // FEC 129 carries the source block length in every payload id: expected k per block (RFC 5052)
    let mut sbl: std::collections::BTreeMap<u128, Vec<u32>> = Default::default();
    for o in &c.objs {
        match drv.add(o) {
            Ok((toi, _)) => {
                let eff = effective_oti(&c.sender, o);
                tois.insert(toi, eff.scheme);
                let tl = drv.sender.get_objects_in_fdt().get(&toi).map(|d| d.transfer_length).unwrap_or(0);
                if let Some(p) = ref_partition(eff, tl) {
                    sbl.insert(toi, (0..p.n).map(|s| p.k(s) as u32).collect());
                }
            }
            Err(_) => return Ok(CaseInfo::excluded("domain: object refused")),
        }
    }
    let mut publications = 0u32;
    for k in 0..c.publishes.max(1) {
        if c.sender.full_fdt {
            if drv.publish().is_err() {
                return Ok(CaseInfo::excluded("domain: FDT does not fit the session OTI"));
            }
        }
        if k == 0 {
            drv.drain(60_000)?;
        } else {
            let mut g = 0;
            while drv.read().is_some() && g < 2000 {
                g += 1;
            }
        }
        drv.advance(std::time::Duration::from_millis(1500));
    }
    let version = if c.sender.rfc3926 { 1u8 } else { 2u8 };
    let mut ids: Vec<u32> = vec![];
    let mut wide = false;
    let mut sbl_checked = false;
    for r in &drv.log {
        let (bytes, dec) = match &r.kind {
            RecKind::Pkt { bytes, dec } => (bytes, dec),
            _ => continue,
        };
        let d = dec.as_ref().map_err(|e| format!("a packet returned by Sender::read is not decodable per RFC: {} ({:02x?})", e, &bytes[..bytes.len().min(48)]))?;
        // flute parses its own packet to the same values
        run_bytes(bytes)?;
        eq("TSI", "reference", d.lct.tsi, c.sender.tsi)?;
        if d.lct.toi == 0 {
            let (v, id) = d.fdt.ok_or("a TOI 0 packet returned by Sender::read has no EXT_FDT")?;
            if v != version {
                return Err(format!("EXT_FDT carries version {} (instance id {}), the sender profile is {}", v, id, if c.sender.rfc3926 { "RFC 3926 (1)" } else { "RFC 6726 (2)" }));
            }
            if ids.last() != Some(&id) && !ids.contains(&id) {
                ids.push(id);
            }
            eq("codepoint of FDT packets", "reference", d.lct.cp, c.sender.oti.scheme.fec_id())?;
        } else {
            let scheme = tois.get(&d.lct.toi).ok_or(format!("a packet carries TOI {} which no added object has (objects: {:?})", d.lct.toi, tois.keys().collect::<Vec<_>>()))?;
            eq("codepoint of object packets", "reference", d.lct.cp, scheme.fec_id())?;
            if d.fdt.is_some() {
                return Err(format!("an object packet (TOI {}) carries EXT_FDT", d.lct.toi));
            }
            if *scheme == Scheme::Rs28Us {
                let want = sbl.get(&d.lct.toi).and_then(|k| k.get(d.pid.sbn as usize)).copied();
                if let (Some(want), Some(got)) = (want, d.pid.sbl) {
                    if got as u32 != want {
                        return Err(format!(
                            "TOI {} SBN {} ESI {}: the FEC payload id announces a source block length of {} symbols, the block has {} (RFC 5052 partition of the object)",
                            d.lct.toi, d.pid.sbn, d.pid.esi, got, want
                        ));
                    }
                    sbl_checked = true;
                }
            }
            wide |= d.lct.toi >= 1 << 16;
        }
        if let Some(t) = &d.time {
            if c.sender.inband_sct {
                let hi = t.sct_hi.ok_or("EXT_TIME without SCT-High although in-band SCT is configured")?;
                let ns = ntp::to_unix_nanos(hi, t.sct_low.unwrap_or(0)).ok_or("SCT before 1970")?;
                let want_us = r.t.duration_since(std::time::UNIX_EPOCH).map(|x| x.as_micros()).unwrap_or(0) as u64;
                sct_check("sender current time of a packet returned by Sender::read", ns, want_us)?;
            }
        }
        publications = publications.max(ids.len() as u32);
    }
    // instance ids: consecutive modulo 2^20 from the configured start
    for (j, id) in ids.iter().enumerate() {
        let want = ((c.sender.fdt_start_id as u64 + j as u64) % (1 << 20)) as u32;
        if *id != want {
            return Err(format!("FDT instance #{} carries instance id {}, expected {} (fdt_start_id {})", j, id, want, c.sender.fdt_start_id));
        }
    }
    let wraps = ids.len() >= 2 && ids.windows(2).any(|w| w[1] < w[0]);
    info.nt(wraps || wide || c.sender.rfc3926 || c.sender.tsi >= 1 << 16);
    info.label_if(wraps, "instance id wraps");
    info.label_if(wide, "TOI >= 2^16");
    info.label_if(sbl_checked, "source block length of FEC 129 payload ids checked");
    info.label_if(c.sender.rfc3926, "RFC 3926 profile");
    info.label(format!("instances={}", ids.len().min(4)));
    Ok(info)
}

fn sender_case_strategy() -> BoxedStrategy<SenderCase> {
    let oo = crate::gen::ObjOpts { max_size: 600, rich_meta: false, allow_stream: false, ..Default::default() };
    (crate::gen::session_strategy(crate::gen::SenderOpts::default(), oo, 2), 1u8..4, 0u8..6)
        .prop_map(|((mut sender, objs), publishes, near)| {
            // instance ids around the 20-bit wrap in half of the cases
            sender.fdt_start_id = match near {
                0 => (1 << 20) - 1,
                1 => (1 << 20) - 2,
                2 => (1 << 20) - 3,
                _ => sender.fdt_start_id,
            };
            SenderCase { sender, objs, publishes }
        })
        .boxed()
}

pub fn replay(part: &str, case: &Value) -> Option<CaseResult> {
    match part {
        "classes" | "build" => Some(check_build(&serde_json::from_value(case.clone()).ok()?)),
        "foreign" => Some(check_ref(&serde_json::from_value(case.clone()).ok()?)),
        "header" => Some(check_hdr(&serde_json::from_value(case.clone()).ok()?)),
        "sender" => Some(check_sender(&serde_json::from_value(case.clone()).ok()?)),
        // a libFuzzer artifact: the datagram as hex
        "fuzz-bytes" => {
            let d = crate::engine::unhex(case.get("hex")?.as_str()?)?;
            Some(run_bytes(&d).map(|_| CaseInfo::new()))
        }
        _ => None,
    }
}

// ------------------------------------------------------------------------------------------
// byte-level entry point for coverage-guided fuzzing (fuzz/fuzz_targets/c06_parse.rs):
// whenever the reference decoder accepts a datagram, flute must accept it too (except for what is
// flute policy) and report identical fields.

pub fn run_bytes(d: &[u8]) -> Result<(), String> {
    let r = match pkt::decode(d, 0) {
        Ok(r) => r,
        Err(_) => {
            // not a packet for the reference: flute only has to return (Ok or Err) without panicking
            let _ = parse_alc_pkt(d);
            return Ok(());
        }
    };
    // flute policy, not format: FTI values it refuses for Raptor / RaptorQ
    if let Some(f) = &r.fti {
        if matches!(f.scheme, Scheme::RaptorQ | Scheme::Raptor) && (f.e == 0 || f.z == 0 || f.al == 0 || f.e % f.al as u16 != 0) {
            let _ = parse_alc_pkt(d);
            return Ok(());
        }
        // inconsistent RS FTI (max_n < B) is C04's business
        if matches!(f.scheme, Scheme::Rs28 | Scheme::Rs28Us | Scheme::Rs2m) && f.max_n < f.b {
            let _ = parse_alc_pkt(d);
            return Ok(());
        }
    }
    let p = parse_alc_pkt(d).map_err(|e| format!("the reference decoder accepts the datagram, flute rejects it: {} ({:02x?})", e.0, &d[..d.len().min(64)]))?;
    eq("CCI", "flute", p.lct.cci, r.lct.cci)?;
    eq("TSI", "flute", p.lct.tsi, r.lct.tsi)?;
    eq("TOI", "flute", p.lct.toi, r.lct.toi)?;
    eq("codepoint", "flute", p.lct.cp, r.lct.cp)?;
    eq("close object", "flute", p.lct.close_object, r.lct.close_object)?;
    eq("close session", "flute", p.lct.close_session, r.lct.close_session)?;
    if r.lct.toi == 0 {
        eq("EXT_FDT", "flute", p.fdt_info.as_ref().map(|f| (f.version as u8, f.fdt_instance_id)), r.fdt)?;
    }
    if let Some(c) = r.cenc {
        if c <= 3 {
            eq("EXT_CENC", "flute", p.cenc.map(|c| c as u8), Some(c))?;
        }
    } else {
        eq("EXT_CENC", "flute", p.cenc.map(|c| c as u8), None)?;
    }
    match &r.fti {
        Some(f) => {
            let got = p.oti.clone().ok_or("flute does not see the EXT_FTI the reference decoded")?;
            check_flute_oti(&got, p.transfer_length, f)?;
            let m = if f.scheme == Scheme::Rs2m { if f.m == 0 { 8 } else { f.m } } else { 0 };
            if f.scheme != Scheme::Rs2m || (2..=16).contains(&m) {
                let pid = parse_payload_id(&p, &got).map_err(|e| format!("payload id: {}", e.0))?;
                let want = fti::decode_payload_id(f.scheme, m, &d[r.lct.header_len..]).map_err(|e| e)?;
                eq("SBN", "flute", pid.sbn, want.sbn)?;
                eq("ESI", "flute", pid.esi, want.esi)?;
            }
        }
        None => eq("EXT_FTI", "flute", p.oti.is_some(), false)?,
    }
    eq("payload offset", "flute", p.data_payload_offset, d.len() - r.payload.len())?;
    Ok(())
}
