//! C14 Timing: start times, carousel gaps and pacing never early; edge cases are safe.

use super::c11::{known_skip, raptor_panic};
use crate::drive::*;
use crate::engine::*;
use crate::gen;
use crate::ops::*;
use crate::spec::*;
use crate::stream;
use proptest::prelude::*;
use serde_json::Value;
use std::time::{Duration, SystemTime};

fn us(t: SystemTime) -> i128 {
    match t.duration_since(t0()) {
        Ok(d) => d.as_nanos() as i128,
        Err(e) => -(e.duration().as_nanos() as i128),
    }
}

pub fn check(c: &OpCase, run: &OpsRun, info: &mut CaseInfo) -> Result<(), String> {
    let log = &run.drv.log;
    let an = stream::analyse(log);
    if let Some(e) = an.errors.first() {
        return Err(format!("stream: {}", e));
    }
    let mut gate_closed = false;
    for a in &run.added {
        let ts = an.transfers.get(&a.toi).cloned().unwrap_or_default();
        // (1) start time: the configured one, or the latest one set by trigger_transfer_at before the packet
        for t in &ts {
            for li in &t.pkts {
                let pt = log[*li].t;
                let mut start: Option<SystemTime> = a.spec.start_offset_ms.map(at_ms);
                for (tidx, _, at) in &a.triggers {
                    if *tidx < t.start_idx {
                        if let Some(at) = at {
                            start = Some(*at);
                        }
                    }
                }
                if let Some(s) = start {
                    // only the start of a transfer is gated by the start time
                    let first = *li == t.pkts[0];
                    if first && pt < s {
                        return Err(format!("toi {}: first packet of a transfer emitted at {} ns although the transfer start time is {} ns (relative to T0)", a.toi, us(pt), us(s)));
                    }
                }
            }
        }
        // (2) carousel: next transfer never earlier than delay after the previous ended / interval after it started
        if let Some(car) = a.spec.carousel {
            for w in ts.windows(2) {
                let (prev, next) = (&w[0], &w[1]);
                // flute sends max_transfer_count transfers back to back, then waits: the carousel gate sits
                // between such groups (the combination is not specified further; only this reading is asserted)
                let n_prev = ts.iter().position(|x| x.start_idx == prev.start_idx).unwrap() + 1;
                if n_prev % a.spec.max_transfer_count.max(1) as usize != 0 {
                    continue;
                }
                // a trigger_transfer_at between the two resets the gate
                if a.triggers.iter().any(|(tidx, _, _)| *tidx > prev.start_idx && *tidx < next.start_idx) {
                    continue;
                }
                let next_first = match next.pkts.first() {
                    Some(i) => log[*i].t,
                    None => log[next.start_idx].t,
                };
                let next_start = log[next.start_idx].t;
                let (reference, gap, what) = match car {
                    CarouselSpec::DelayMs(ms) => (prev.stop_idx.map(|i| log[i].t), Duration::from_millis(ms), "delay after the end of the previous transfer"),
                    CarouselSpec::IntervalMs(ms) => (Some(log[prev.start_idx].t), Duration::from_millis(ms), "interval after the start of the previous transfer"),
                };
                if let Some(r) = reference {
                    if next_start < r + gap || next_first < r + gap {
                        return Err(format!(
                            "toi {}: carousel transfer started at {} ns, earlier than the configured {} ({} ns + {:?})",
                            a.toi,
                            us(next_start),
                            what,
                            us(r),
                            gap
                        ));
                    }
                }
            }
        }
        // (3) pacing: i-th packet of a paced transfer never before start + i * (target / number of source packets)
        if let Some(target) = a.spec.target {
            let nb = (a.transfer_len as u128 + a.eff.e as u128 - 1) / (a.eff.e as u128).max(1);
            for t in &ts {
                let t_start = log[t.start_idx].t;
                let total_ns: u128 = match target {
                    TargetSpec::Fast => continue,
                    TargetSpec::WithinUs(u) => u as u128 * 1000,
                    TargetSpec::AtOffsetUs(off) => at_us(off).duration_since(t_start).map(|d| d.as_nanos()).unwrap_or(0),
                };
                if nb == 0 {
                    continue;
                }
                // tick in exact rational arithmetic; flute rounds the tick to whole nanoseconds
                for (i, li) in t.pkts.iter().enumerate() {
                    let due_ns = (i as u128 * total_ns) / nb; // floor: never demands more than the exact value
                    let allowance = i as u128 + 1000; // 1 ns rounding per packet + 1 us
                    let pt = log[*li].t.duration_since(t_start).map(|d| d.as_nanos()).unwrap_or(0);
                    if pt + allowance < due_ns {
                        return Err(format!(
                            "toi {}: packet {} of a transfer paced over {} ns in {} source packets was emitted {} ns after the transfer start, before its due time {} ns",
                            a.toi, i, total_ns, nb, pt, due_ns
                        ));
                    }
                }
                // due-ness: when the sender was drained at poll instant p (read returned None) and this
                // object is the only one with work, it has emitted min(total, floor((p - start)/tick) + 1) packets
                let alone = run.added.len() == 1;
                if alone && total_ns > 0 {
                    let total_pkts = nb as usize; // at least the source packets
                    for p in run.polls.iter().filter(|p| p.pkt.is_none() && p.idx > t.start_idx && t.stop_idx.map(|s| p.idx <= s).unwrap_or(true)) {
                        let el = p.time.duration_since(t_start).map(|d| d.as_nanos()).unwrap_or(0);
                        // tick rounded up by 1 ns at most: use a slightly larger tick for the lower bound
                        let tick_up = total_ns / nb + 1;
                        let due = ((el / tick_up) as usize + 1).min(total_pkts);
                        let sent = t.pkts.iter().filter(|i| **i < p.idx).count();
                        if sent < due {
                            return Err(format!(
                                "toi {}: drained at {} ns after the transfer start, {} packets are due by then (tick {} ns) but only {} were emitted",
                                a.toi, el, due, total_ns / nb, sent
                            ));
                        }
                        if sent < total_pkts {
                            gate_closed = true;
                        }
                    }
                }
            }
        }
    }
    // a gate was closed when read() returned None while some object still had work
    for s in &run.polls {
        if s.pkt.is_none() && run.drv.sender.nb_objects() > 0 {
            gate_closed = true;
        }
    }
    info.nt(gate_closed);
    info.label_if(gate_closed, "a timing gate was closed at some poll");
    info.label_if(run.added.iter().any(|a| a.spec.target.is_some()), "paced object");
    info.label_if(run.added.iter().any(|a| a.spec.carousel.is_some()), "carousel object");
    info.label_if(run.added.iter().any(|a| a.spec.start_offset_ms.is_some()), "start time");
    info.label_if(run.added.iter().any(|a| a.transfer_len == 0), "empty object");
    let _ = c;
    Ok(())
}

pub fn run_case(c: &OpCase, known: &dyn Fn(&str) -> bool) -> CaseResult {
    if let Some(k) = known_skip(c, known) {
        return Ok(CaseInfo::excluded(k));
    }
    let run = match caught(|| run_ops(c)) {
        Ok(r) => r?,
        Err(p) if raptor_panic(c, known, &p) => return Ok(CaseInfo::excluded("raptor-small-block")),
        Err(p) => return Err(format!("sender panicked (degenerate timing inputs must neither crash nor stall the sender): {}", p)),
    };
    if trace_enabled() {
        crate::say!("{}", dump(&run.drv.log));
    }
    if known("raptor-small-block") && run.added.iter().any(|a| super::common::sig_raptor_small_block(&a.eff, a.transfer_len)) {
        // blocks of 2-3 symbols are silently dropped: fewer packets than the pacing rule counts
        return Ok(CaseInfo::excluded("raptor-small-block"));
    }
    let mut info = CaseInfo::new();
    check(c, &run, &mut info)?;
    Ok(info)
}

pub fn strategy(tier: Tier) -> BoxedStrategy<OpCase> {
    let obj = gen::ObjOpts { max_size: 400, allow_stream: false, rich_meta: false, allow_cenc: false, ..Default::default() };
    let sender = gen::SenderOpts { max_queues: 2, ..Default::default() };
    let general = ops_strategy(OpsOpts { max_ops: tier.pick(30, 50), obj: obj.clone(), sender: sender.clone(), timing: true, removal: false, tail_rounds: 10, tail_step_us: 300_000, max_transfers: 3, ..Default::default() });
    // single-object schedules with fine polling: exercises the due-ness rule
    let single = (ops_strategy(OpsOpts { max_ops: 2, obj, sender, timing: true, removal: false, tail_rounds: 0, ..Default::default() }), proptest::collection::vec(prop_oneof![Just(1u64), Just(10), Just(1000), 1u64..50_000, 1u64..2_000_000], 5..60)).prop_map(|(mut c, steps)| {
        // keep exactly one Add, then publish and poll on the generated schedule
        let add = c.ops.iter().find(|o| matches!(o, Op::Add(_))).cloned();
        c.ops.clear();
        if let Some(a) = add {
            c.ops.push(a);
        }
        c.ops.push(Op::Publish);
        for s in steps {
            c.ops.push(Op::Drain);
            c.ops.push(Op::Advance(s));
        }
        c.ops.push(Op::Drain);
        c
    });
    prop_oneof![3 => general, 2 => single].boxed()
}

pub fn run(eng: &mut Engine) {
    eng.assume("all instants come from the harness' virtual clock; tolerances: pacing due times are computed in exact integer arithmetic and lowered by 1 ns per packet + 1 us (flute rounds the tick to whole nanoseconds)");
    eng.assume("the carousel gate is asserted between groups of max_transfer_count back-to-back transfers (flute's reading of the combination) with no trigger_transfer_at in between; due-ness only for single-object sessions (nothing of higher priority pending)");
    let tier = eng.tier;
    let known = super::c01::known_fn(eng);
    eng.generated(
        PartCfg::new(
            "schedules",
            "operation sequences with polling schedules from 1 us steps to minutes over objects with start times (before/at/after now), carousel delay/interval incl. 0, target duration/deadline incl. 0 and past, sizes 0 / one symbol / many, trigger_transfer_at; never-early rules from observed (instant, packet) pairs and event instants, due-ness on drained polls of single-object sessions, no panic and no stall on degenerate inputs; non-trivial = a gate was closed at some poll (read() returned None while an object had work); distinct by case",
            tier.pick(120_000, 2_500_000),
        )
        .hang_violates()
        .limit_s(60),
        move || strategy(tier),
        move |c| run_case(c, &known),
    );
}

pub fn replay(part: &str, case: &Value) -> Option<CaseResult> {
    match part {
        "schedules" | "ops" | "pinned" => Some(run_case(&serde_json::from_value(case.clone()).ok()?, &|_| false)),
        _ => None,
    }
}
