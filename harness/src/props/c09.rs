//! C09 Object-writer protocol: open, writes, exactly one terminal call, nothing after.

use crate::chan::*;
use crate::drive::RxSpec;
use crate::engine::*;
use crate::monitor::{check_all_terminated, BuilderAnswer, Faults, Monitor};
use crate::rfc::fdt::{ForeignFdt, ForeignFile};
use crate::rfc::fti::{self, Fti, PayloadId, Scheme};
use crate::rfc::lct::{self, LctSpec};
use crate::spec::*;
use proptest::prelude::*;
use serde::{Deserialize, Serialize};
use serde_json::Value;
use std::time::Duration;

#[derive(Debug, Clone, Serialize, Deserialize)]
pub struct Case {
    pub sess: SessSpec,
    pub order: Vec<u16>,
    pub faults: Faults,
    /// keep only this share of the history (the receiver is dropped after it)
    pub keep: u16,
    /// replace the session's FDT packets by a foreign FDT instance that carries no FEC-OTI attribute
    pub foreign_fdt: bool,
    pub md5_check: bool,
    pub receive_once: bool,
    /// receiver's object_max_cache_size (None: flute's default); tiny values make the receiver refuse
    /// source blocks after the writer has been opened
    #[serde(default)]
    pub cache: Option<usize>,
    /// foreign FDT only: how the announced Content-MD5 relates to the real digest. 0: equal; 1: the
    /// same base64 text with the case of one letter flipped; 2: padded with a blank; 3: another digest.
    /// With the writer's MD5 check on, 1-3 must never end in complete.
    #[serde(default)]
    pub md5_variant: u8,
}

fn map_idx(i: u16, len: usize) -> usize {
    ((i as usize) * len) >> 16
}

/// a foreign FDT instance (no OTI attributes at all) listing the session's objects
fn md5_text(real: &str, variant: u8) -> String {
    match variant {
        1 => {
            // flip the case of the first letter (base64 is case sensitive)
            let mut out = String::new();
            let mut done = false;
            for ch in real.chars() {
                if !done && ch.is_ascii_alphabetic() {
                    out.push(if ch.is_ascii_uppercase() { ch.to_ascii_lowercase() } else { ch.to_ascii_uppercase() });
                    done = true;
                } else {
                    out.push(ch);
                }
            }
            out
        }
        2 => format!(" {}", real),
        3 => "AAAAAAAAAAAAAAAAAAAAAA==".to_string(),
        _ => real.to_string(),
    }
}

fn foreign_fdt_packet(ls: &LabeledSession, instance_id: u32, md5_variant: u8) -> Vec<u8> {
    let mut fdt = ForeignFdt::new(4_000_000_000);
    for (i, o) in ls.objs.iter().enumerate() {
        let spec = &ls.spec.objs[i];
        let mut f = ForeignFile::new(o.toi, &spec.location).with("Content-Length", o.bytes.len()).with("Transfer-Length", o.transfer_len);
        if spec.cenc != 0 {
            f = f.with("Content-Encoding", ["null", "zlib", "deflate", "gzip"][spec.cenc as usize]);
        }
        if spec.md5 {
            f = f.with("Content-MD5", md5_text(&super::c01::expected_md5(&o.bytes), md5_variant));
        }
        fdt = fdt.file(f);
    }
    let xml = fdt.to_xml().into_bytes();
    let mut f = Fti::blank(Scheme::NoCode);
    f.transfer_length = xml.len() as u64;
    f.e = 60000;
    f.b = 4;
    let spec = LctSpec {
        version: 1,
        psi: 0,
        res: 0,
        c: 0,
        cci: 0,
        s: 1,
        o: 0,
        h: 1,
        tsi: ls.spec.sender.tsi,
        toi: 0,
        cp: 0,
        close_session: false,
        close_object: false,
        exts: vec![lct::ext_fdt(2, instance_id), fti::encode(&f)],
    };
    let mut p = lct::build(&spec);
    p.extend_from_slice(&fti::encode_payload_id(Scheme::NoCode, 0, &PayloadId { sbn: 0, esi: 0, sbl: None }));
    p.extend_from_slice(&xml);
    p
}

pub fn run_case(c: &Case) -> CaseResult {
    let mut info = CaseInfo::new();
    let mut sess = c.sess.clone();
    if c.foreign_fdt {
        // OTI must then come from the packets
        for o in sess.objs.iter_mut() {
            if let Some(oti) = o.oti.as_mut() {
                oti.inband_fti = true;
            }
            o.inband_cenc = true;
        }
    }
    let ls = build_session(&sess).map_err(|e| format!("HARNESS: cannot build the session: {}", e))?;
    if ls.packets.is_empty() {
        return Ok(CaseInfo::excluded("domain: empty session"));
    }
    let n = ls.packets.len();
    let mut order: Vec<usize> = c.order.iter().map(|i| map_idx(*i, n)).collect();
    let keep = map_idx(c.keep, order.len() + 1);
    let truncated = keep < order.len();
    order.truncate(keep);
    // deliver by hand (the foreign FDT needs packet substitution)
    let foreign = if c.foreign_fdt { Some(foreign_fdt_packet(&ls, 900, c.md5_variant)) } else { None };
    let rxs = RxSpec { receive_once: c.receive_once, md5_check: c.md5_check, object_max_cache_size: c.cache, ..RxSpec::default_once() };
    let mon = Monitor::new(c.md5_check, c.faults.clone());
    let mut rx = crate::drive::Rx::with_monitor(&rxs, mon.clone());
    for (k, i) in order.iter().enumerate() {
        let now = t0() + Duration::from_millis(k as u64);
        let p: &Vec<u8> = match (&ls.kinds[*i], &foreign) {
            (PktKind::Fdt { .. }, Some(f)) => f,
            _ => &ls.packets[*i],
        };
        rx.push(p, now);
    }
    let open_before_drop = mon.writers().iter().filter(|w| w.state == crate::monitor::WState::Opened).count();
    drop(rx);
    let st = mon.st.borrow();
    if let Some(e) = st.protocol_errors.first() {
        return Err(format!("writer protocol violated: {}", e));
    }
    if let Some(e) = check_all_terminated(&st).first() {
        return Err(e.clone());
    }
    for w in &st.writers {
        let o = match ls.objs.iter().find(|o| o.toi == w.toi) {
            Some(o) => o,
            None => return Err(format!("writer created for unknown toi {}", w.toi)),
        };
        if !o.bytes.starts_with(&w.data) {
            let first = w.data.iter().zip(o.bytes.iter()).position(|(a, b)| a != b);
            return Err(format!(
                "toi {}: the concatenation of the successful writes ({} bytes) is not a prefix of the object's content ({} bytes); first difference at {:?} ({})",
                w.toi,
                w.data.len(),
                o.bytes.len(),
                first,
                w.trace()
            ));
        }
        if w.completed() {
            let announced = ls.spec.objs.iter().zip(ls.objs.iter()).any(|(sp, ob)| ob.toi == w.toi && sp.md5);
            if c.foreign_fdt && c.md5_variant != 0 && c.md5_check && announced {
                return Err(format!(
                    "toi {}: complete although the announced Content-MD5 ({:?}) is not the digest of the content ({:?}) and the writer asked for the check ({})",
                    w.toi,
                    md5_text(&super::c01::expected_md5(&o.bytes), c.md5_variant),
                    super::c01::expected_md5(&o.bytes),
                    w.trace()
                ));
            }
            if w.data != o.bytes {
                return Err(format!("toi {}: complete after {} of {} bytes ({})", w.toi, w.data.len(), o.bytes.len(), w.trace()));
            }
            if w.calls.iter().any(|c| matches!(c, crate::monitor::Call::Write(_, false))) {
                return Err(format!("toi {}: complete although a write failed ({})", w.toi, w.trace()));
            }
        }
    }
    let empty = ls.objs.iter().any(|o| o.bytes.is_empty());
    info.nt(c.faults.any() || open_before_drop > 0 || empty);
    info.label_if(c.faults.any(), "fault injected");
    info.label_if(open_before_drop > 0, "dropped with a writer open");
    info.label_if(empty, "empty object");
    info.label_if(c.foreign_fdt, "foreign FDT without OTI");
    info.label_if(c.foreign_fdt && c.md5_variant != 0 && c.md5_check, "foreign FDT announcing a Content-MD5 that is not the digest");
    info.label_if(truncated, "history cut");
    info.label_if(c.cache.is_some() && st.writers.iter().any(|w| w.failed()), "tiny cache limit and a writer failed");
    info.label(format!("writers={}", st.writers.len().min(4)));
    Ok(info)
}

fn faults_strategy() -> BoxedStrategy<Faults> {
    (
        proptest::collection::vec(prop_oneof![6 => Just(BuilderAnswer::Store), 1 => Just(BuilderAnswer::AlreadyReceived), 1 => Just(BuilderAnswer::Abort)], 0..4),
        proptest::collection::vec(0usize..3, 0..2),
        proptest::collection::vec((0usize..3, 0usize..5), 0..2),
    )
        .prop_map(|(answers, fail_open, fail_write)| Faults { answers, fail_open, fail_write })
        .boxed()
}

fn order_strategy() -> BoxedStrategy<Vec<u16>> {
    prop_oneof![
        // in order, all packets
        3 => (1u16..120).prop_map(|n| (0..n as u32).map(|i| ((i * 65536) / n as u32) as u16).collect()),
        // in order with losses and duplicates
        3 => proptest::collection::vec(any::<u16>(), 1..120).prop_map(|mut v| {
            v.sort();
            v
        }),
        2 => proptest::collection::vec(any::<u16>(), 0..120),
    ]
    .boxed()
}

pub fn case_strategy() -> BoxedStrategy<Case> {
    (
        small_session_strategy(SmallOpts { max_symbols: 10, allow_cenc: true, allow_empty: true, allow_repeats: true, ..Default::default() }),
        order_strategy(),
        faults_strategy(),
        prop_oneof![2 => Just(65535u16), 3 => any::<u16>()],
        prop_oneof![3 => Just(false), 1 => Just(true)],
        any::<bool>(),
        any::<bool>(),
        (prop_oneof![4 => Just(None), 1 => prop_oneof![Just(1usize), Just(8), Just(16), Just(32), Just(64), 1usize..200].prop_map(Some)], prop_oneof![3 => Just(0u8), 1 => 1u8..4]),
    )
        .prop_map(|(sess, order, faults, keep, foreign_fdt, md5_check, receive_once, (cache, md5_variant))| Case { sess, order, faults, keep, foreign_fdt, md5_check, receive_once, cache, md5_variant })
        .boxed()
}

pub fn run(eng: &mut Engine) {
    eng.assume("every other receiver-side check (C01-C05, C16-C19) observes delivery through the same monitoring writer and fails on a protocol error too; this check adds writer faults, builder answers, foreign FDT instances without OTI, empty objects and receiver drops at any point");
    eng.assume("after a failed open() a single error()/interrupted() is accepted as 'at most one terminal call'; complete() after a failed open is not");
    let tier = eng.tier;
    eng.generated(
        PartCfg::new(
            "faults",
            "small sessions (all schemes, cenc, empty objects, 1-2 objects, 1-2 transfers, FDT repeats) x histories (clean, lossy, duplicated, reordered, cut at any point then receiver dropped) x writer faults (open fails, n-th write fails, builder answers ObjectAlreadyReceived/Abort) x receiver cache limit (default, or 1-200 bytes so that source blocks are refused after the writer was opened) x foreign FDT without FEC-OTI attributes; typestate automaton per writer + prefix/complete conditions + all opened writers terminated after drop; non-trivial = a fault was injected or the receiver was dropped with a writer open or an object is empty; distinct by case",
            tier.pick(400_000, 8_000_000),
        ),
        case_strategy,
        run_case,
    );
}

pub fn replay(part: &str, case: &Value) -> Option<CaseResult> {
    match part {
        "faults" | "pinned" => Some(run_case(&serde_json::from_value(case.clone()).ok()?)),
        _ => None,
    }
}
