//! Helpers shared by several property modules: known-finding signatures on cases, per-object
//! facts, reference partition for an object.

use crate::rfc::fti::Scheme;
use crate::rfc::partition::{partition, Partition};
use crate::spec::*;

pub fn effective_oti<'a>(s: &'a SenderSpec, o: &'a ObjSpec) -> &'a OtiSpec {
    o.oti.as_ref().unwrap_or(&s.oti)
}

pub fn ref_partition(eff: &OtiSpec, transfer_len: u64) -> Option<Partition> {
    partition(transfer_len as u128, eff.e as u128, eff.b as u128)
}

/// finding 14: Raptor with a block of 2 or 3 source symbols is accepted but cannot be encoded
pub fn sig_raptor_small_block(eff: &OtiSpec, transfer_len: u64) -> bool {
    if eff.scheme != Scheme::Raptor || transfer_len == 0 {
        return false;
    }
    // observed on the pinned tree: a block of 1 symbol and blocks of >= 4 symbols encode, blocks of
    // 2 or 3 symbols do not ("Raptor matrix is not fully specified")
    let bad = |k: u128| k == 2 || k == 3;
    match ref_partition(eff, transfer_len) {
        Some(p) => p.n > 0 && ((p.i > 0 && bad(p.a_large)) || (p.n > p.i && bad(p.a_small))),
        None => false,
    }
}

/// finding 15: Reed-Solomon (both ids) with zero parity symbols is accepted but cannot be encoded
pub fn sig_rs_zero_parity(eff: &OtiSpec, transfer_len: u64) -> bool {
    matches!(eff.scheme, Scheme::Rs28 | Scheme::Rs28Us) && eff.parity == 0 && transfer_len > 0
}

/// finding 16: Raptor source symbols are not E-byte slices when the last block is not a whole
/// number of symbols
pub fn sig_raptor_unaligned(eff: &OtiSpec, transfer_len: u64) -> bool {
    eff.scheme == Scheme::Raptor && eff.e != 0 && transfer_len % eff.e as u64 != 0
}

/// number of source blocks the scheme's wire format can number (payload id SBN width and, for
/// RaptorQ / Raptor, the Z field of the FTI)
pub fn wire_max_blocks(s: Scheme) -> u128 {
    match s {
        Scheme::NoCode => 1 << 16,
        Scheme::Rs28 => 1 << 24,
        Scheme::Rs28Us => 1 << 32,
        Scheme::RaptorQ => 255,
        Scheme::Raptor => 65535,
        Scheme::Rs2m => 0,
    }
}

/// transfer length the scheme's EXT_FTI can carry (as flute lays it out)
pub fn wire_max_len(s: Scheme) -> u128 {
    match s {
        Scheme::RaptorQ | Scheme::Raptor => (1u128 << 40) - 1,
        _ => (1u128 << 48) - 1,
    }
}

/// the wire format cannot carry this object: the sender must refuse it
pub fn must_refuse(eff: &OtiSpec, transfer_len: u64) -> bool {
    let p = match ref_partition(eff, transfer_len) {
        Some(p) => p,
        None => return true,
    };
    p.n > wire_max_blocks(eff.scheme) || transfer_len as u128 > wire_max_len(eff.scheme)
}

pub fn scheme_label(s: Scheme) -> &'static str {
    match s {
        Scheme::NoCode => "scheme=nocode",
        Scheme::Rs28 => "scheme=rs28",
        Scheme::Rs28Us => "scheme=rs28us",
        Scheme::Rs2m => "scheme=rs2m",
        Scheme::RaptorQ => "scheme=raptorq",
        Scheme::Raptor => "scheme=raptor",
    }
}

pub fn cenc_label(c: u8) -> &'static str {
    match c {
        1 => "cenc=zlib",
        2 => "cenc=deflate",
        3 => "cenc=gzip",
        _ => "cenc=null",
    }
}

pub fn blocks_label(n: u128) -> &'static str {
    match n {
        0 => "blocks=0",
        1 => "blocks=1",
        2 => "blocks=2",
        3..=5 => "blocks=3-5",
        _ => "blocks>5",
    }
}

/// Upper bound of the size of an FDT instance listing all of `objs` (used to keep sessions inside
/// the domain "the session's default OTI can carry the FDT instance": in FullFDT mode publish()
/// reports the problem, in ObjectsBeingTransferred mode the automatic publication fails silently).
pub fn fdt_size_bound(s: &SenderSpec, objs: &[ObjSpec]) -> usize {
    let esc = |x: &str| x.len() * 6 + 8;
    let mut n = 1100 + s.groups.as_ref().map(|g| g.iter().map(|x| esc(x) + 40).sum::<usize>()).unwrap_or(0);
    for o in objs {
        n += 700 + esc(&o.location) * 3 + esc(&o.content_type) + o.etag.as_ref().map(|e| esc(e)).unwrap_or(0);
        n += o.groups.as_ref().map(|g| g.iter().map(|x| esc(x) + 40).sum::<usize>()).unwrap_or(0);
    }
    n
}

pub fn session_can_carry_fdt(s: &SenderSpec, objs: &[ObjSpec]) -> bool {
    let cap = s.oti.to_oti().map(|o| o.max_transfer_length()).unwrap_or(0);
    fdt_size_bound(s, objs) <= cap
}
