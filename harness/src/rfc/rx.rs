//! A receiver that follows only the RFCs: source symbols are placed at
//! offset(SBN) + ESI*E of the transfer-encoded object (RFC 5052 §9.1 partition), repair symbols
//! are ignored, the result is trimmed to the transfer length and the content encoding is undone
//! with flate2's one-shot decoders.

use super::partition::{partition, Partition};
use std::io::Read;

#[derive(Debug, Clone)]
pub struct Assembler {
    pub part: Partition,
    pub data: Vec<u8>,
    pub have: Vec<bool>,
    pub missing: u128,
    pub errors: Vec<String>,
}

impl Assembler {
    pub fn new(l: u64, e: u16, b: u32) -> Option<Assembler> {
        let part = partition(l as u128, e as u128, b as u128)?;
        if l > (256 << 20) {
            return None;
        }
        Some(Assembler {
            part,
            data: vec![0; l as usize],
            have: vec![false; part.t as usize],
            missing: part.t,
            errors: vec![],
        })
    }

    /// k of block sbn, or None when sbn is out of range
    pub fn k(&self, sbn: u32) -> Option<u32> {
        if (sbn as u128) < self.part.n {
            Some(self.part.k(sbn as u128) as u32)
        } else {
            None
        }
    }

    /// returns true when the symbol is a source symbol of the object
    pub fn push(&mut self, sbn: u32, esi: u32, payload: &[u8]) -> bool {
        let k = match self.k(sbn) {
            Some(k) => k,
            None => {
                self.errors.push(format!("SBN {} out of range (N={})", sbn, self.part.n));
                return false;
            }
        };
        if esi >= k {
            return false;
        }
        let idx = (self.part.first_symbol(sbn as u128) + esi as u128) as usize;
        let want = self.part.symbol_len(sbn as u128, esi as u128) as usize;
        let e = self.part.e as usize;
        // a source symbol is E bytes; the object's last symbol may be sent short or padded to E
        let ok_len = payload.len() == e || payload.len() == want;
        if !ok_len {
            self.errors.push(format!(
                "source symbol ({},{}) has {} payload bytes; E={} and the object has {} bytes for it",
                sbn,
                esi,
                payload.len(),
                e,
                want
            ));
            return true;
        }
        if payload.len() > want && payload[want..].iter().any(|b| *b != 0) {
            self.errors.push(format!("padding of the last source symbol ({},{}) is not zero", sbn, esi));
        }
        let off = (self.part.offset(sbn as u128) + esi as u128 * self.part.e) as usize;
        if self.have[idx] {
            if self.data[off..off + want] != payload[..want] {
                self.errors.push(format!("source symbol ({},{}) repeated with different bytes", sbn, esi));
            }
        } else {
            self.data[off..off + want].copy_from_slice(&payload[..want]);
            self.have[idx] = true;
            self.missing -= 1;
        }
        true
    }

    pub fn complete(&self) -> bool {
        self.missing == 0
    }
}

pub fn decode_content(cenc: u8, data: &[u8]) -> Result<Vec<u8>, String> {
    let mut out = vec![];
    match cenc {
        0 => return Ok(data.to_vec()),
        1 => flate2::read::ZlibDecoder::new(data).read_to_end(&mut out).map_err(|e| format!("zlib: {}", e))?,
        2 => flate2::read::DeflateDecoder::new(data).read_to_end(&mut out).map_err(|e| format!("deflate: {}", e))?,
        3 => flate2::read::GzDecoder::new(data).read_to_end(&mut out).map_err(|e| format!("gzip: {}", e))?,
        x => return Err(format!("unknown content encoding {}", x)),
    };
    Ok(out)
}
