//! FDT instance documents (RFC 6726 §3.4.2 + the 3GPP extensions flute emits): a typed view
//! over the independent XML reader, and a writer for *foreign* FDT instances (documents flute's
//! own sender would never produce) used to drive the receiver.

use super::xml::{self, Element};
use serde::{Deserialize, Serialize};

#[derive(Debug, Clone, PartialEq, Eq, Serialize, Deserialize)]
pub enum CacheCtl {
    NoCache,
    MaxStale,
    /// NTP seconds
    Expires(u64),
}

#[derive(Debug, Clone, Default, PartialEq, Eq)]
pub struct OtiAttrs {
    pub fec_id: Option<u64>,
    pub instance_id: Option<u64>,
    pub max_sbl: Option<u64>,
    pub esl: Option<u64>,
    pub max_n: Option<u64>,
    pub scheme_specific: Option<String>,
}

impl OtiAttrs {
    pub fn is_usable(&self) -> bool {
        self.fec_id.is_some() && self.max_sbl.is_some() && self.esl.is_some()
    }
}

#[derive(Debug, Clone, PartialEq)]
pub struct FdtFile {
    pub toi: u128,
    pub toi_raw: String,
    pub content_location: String,
    pub content_length: Option<u64>,
    pub transfer_length: Option<u64>,
    pub content_type: Option<String>,
    pub content_encoding: Option<String>,
    pub content_md5: Option<String>,
    pub etag: Option<String>,
    pub oti: OtiAttrs,
    pub groups: Vec<String>,
    pub cache: Option<CacheCtl>,
}

#[derive(Debug, Clone, PartialEq)]
pub struct FdtDoc {
    pub expires: u64,
    pub complete: Option<bool>,
    pub full_fdt: Option<bool>,
    pub oti: OtiAttrs,
    pub groups: Vec<String>,
    pub files: Vec<FdtFile>,
}

fn num(e: &Element, local: &str) -> Result<Option<u64>, String> {
    match e.attr_local(local) {
        None => Ok(None),
        Some(v) => v.trim().parse::<u64>().map(Some).map_err(|_| format!("attribute {}={:?} is not a number", local, v)),
    }
}

fn boolean(v: &str) -> Option<bool> {
    match v.trim() {
        "true" | "1" => Some(true),
        "false" | "0" => Some(false),
        _ => None,
    }
}

fn oti_attrs(e: &Element) -> Result<OtiAttrs, String> {
    Ok(OtiAttrs {
        fec_id: num(e, "FEC-OTI-FEC-Encoding-ID")?,
        instance_id: num(e, "FEC-OTI-FEC-Instance-ID")?,
        max_sbl: num(e, "FEC-OTI-Maximum-Source-Block-Length")?,
        esl: num(e, "FEC-OTI-Encoding-Symbol-Length")?,
        max_n: num(e, "FEC-OTI-Max-Number-of-Encoding-Symbols")?,
        scheme_specific: e.attr_local("FEC-OTI-Scheme-Specific-Info").map(|s| s.to_string()),
    })
}

pub fn view(root: &Element) -> Result<FdtDoc, String> {
    if xml::local_name(&root.name) != "FDT-Instance" {
        return Err(format!("root element is {:?}, not FDT-Instance", root.name));
    }
    let expires = root
        .attr_local("Expires")
        .ok_or("FDT-Instance without Expires")?
        .trim()
        .parse::<u64>()
        .map_err(|_| "Expires is not a number".to_string())?;
    let mut files = vec![];
    for f in root.children_local("File") {
        let toi_raw = f.attr_local("TOI").ok_or("File without TOI")?.to_string();
        let toi = toi_raw.trim().parse::<u128>().map_err(|_| format!("TOI {:?} is not a number", toi_raw))?;
        let mut cache = None;
        for cc in f.children_local("Cache-Control") {
            for c in &cc.children {
                cache = Some(match xml::local_name(&c.name) {
                    "no-cache" => CacheCtl::NoCache,
                    "max-stale" => CacheCtl::MaxStale,
                    "Expires" => CacheCtl::Expires(
                        c.text.trim().parse::<u64>().map_err(|_| format!("Cache-Control Expires {:?}", c.text))?,
                    ),
                    other => return Err(format!("unknown Cache-Control child {}", other)),
                });
            }
        }
        files.push(FdtFile {
            toi,
            toi_raw,
            content_location: f.attr_local("Content-Location").ok_or("File without Content-Location")?.to_string(),
            content_length: num(f, "Content-Length")?,
            transfer_length: num(f, "Transfer-Length")?,
            content_type: f.attr_local("Content-Type").map(|s| s.to_string()),
            content_encoding: f.attr_local("Content-Encoding").map(|s| s.to_string()),
            content_md5: f.attr_local("Content-MD5").map(|s| s.to_string()),
            etag: f.attr_local("File-ETag").map(|s| s.to_string()),
            oti: oti_attrs(f)?,
            groups: f.children_local("Group").map(|g| g.text.clone()).collect(),
            cache,
        });
    }
    Ok(FdtDoc {
        expires,
        complete: root.attr_local("Complete").and_then(boolean),
        full_fdt: root.attr_local("FullFDT").and_then(boolean),
        oti: oti_attrs(root)?,
        groups: root.children_local("Group").map(|g| g.text.clone()).collect(),
        files,
    })
}

pub fn parse(doc: &[u8]) -> Result<FdtDoc, String> {
    view(&xml::parse(doc)?)
}

// ---------------------------------------------------------------------------------------
// foreign FDT writer

#[derive(Debug, Clone, Default, Serialize, Deserialize)]
pub struct ForeignFile {
    /// raw attribute list (name, value) written as given, value XML-escaped
    pub attrs: Vec<(String, String)>,
    pub groups: Vec<String>,
    pub cache: Option<CacheCtl>,
}

#[derive(Debug, Clone, Default, Serialize, Deserialize)]
pub struct ForeignFdt {
    pub attrs: Vec<(String, String)>,
    pub groups: Vec<String>,
    pub files: Vec<ForeignFile>,
}

impl ForeignFile {
    pub fn new(toi: u128, location: &str) -> Self {
        ForeignFile {
            attrs: vec![("TOI".into(), toi.to_string()), ("Content-Location".into(), location.to_string())],
            groups: vec![],
            cache: None,
        }
    }
    pub fn with(mut self, k: &str, v: impl ToString) -> Self {
        self.attrs.push((k.to_string(), v.to_string()));
        self
    }
}

impl ForeignFdt {
    pub fn new(expires_ntp: u64) -> Self {
        ForeignFdt { attrs: vec![("Expires".into(), expires_ntp.to_string())], groups: vec![], files: vec![] }
    }
    pub fn with(mut self, k: &str, v: impl ToString) -> Self {
        self.attrs.push((k.to_string(), v.to_string()));
        self
    }
    pub fn file(mut self, f: ForeignFile) -> Self {
        self.files.push(f);
        self
    }
    pub fn to_xml(&self) -> String {
        let mut o = String::from("<?xml version=\"1.0\" encoding=\"UTF-8\"?>\n");
        o.push_str("<FDT-Instance xmlns=\"urn:IETF:metadata:2005:FLUTE:FDT\" xmlns:mbms2005=\"urn:3GPP:metadata:2005:MBMS:FLUTE:FDT\" xmlns:mbms2007=\"urn:3GPP:metadata:2007:MBMS:FLUTE:FDT\" xmlns:mbms2012=\"urn:3GPP:metadata:2012:MBMS:FLUTE:FDT\"");
        for (k, v) in &self.attrs {
            o.push_str(&format!(" {}=\"{}\"", k, xml::escape(v)));
        }
        o.push('>');
        for f in &self.files {
            o.push_str("<File");
            for (k, v) in &f.attrs {
                o.push_str(&format!(" {}=\"{}\"", k, xml::escape(v)));
            }
            o.push('>');
            if let Some(c) = &f.cache {
                o.push_str("<mbms2007:Cache-Control>");
                match c {
                    CacheCtl::NoCache => o.push_str("<mbms2007:no-cache>true</mbms2007:no-cache>"),
                    CacheCtl::MaxStale => o.push_str("<mbms2007:max-stale>true</mbms2007:max-stale>"),
                    CacheCtl::Expires(t) => o.push_str(&format!("<mbms2007:Expires>{}</mbms2007:Expires>", t)),
                }
                o.push_str("</mbms2007:Cache-Control>");
            }
            for g in &f.groups {
                o.push_str(&format!("<mbms2005:Group>{}</mbms2005:Group>", xml::escape(g)));
            }
            o.push_str("</File>");
        }
        for g in &self.groups {
            o.push_str(&format!("<mbms2005:Group>{}</mbms2005:Group>", xml::escape(g)));
        }
        o.push_str("</FDT-Instance>\n");
        o
    }
}
