//! EXT_FTI layouts and FEC payload IDs per FEC Encoding ID, from the RFCs:
//!   0   Compact No-Code                    RFC 5445 §3
//!   129 Small Block Systematic             RFC 5445 §5
//!   5   Reed-Solomon GF(2^8)               RFC 5510 §5
//!   2   Reed-Solomon GF(2^m)               RFC 5510 §4
//!   6   RaptorQ                            RFC 6330 §3
//!   1   Raptor                             RFC 5053 §3 (see note on `Raptor` below)

use super::lct::Ext;
use serde::{Deserialize, Serialize};

#[derive(Debug, Clone, Copy, PartialEq, Eq, Hash, Serialize, Deserialize)]
pub enum Scheme {
    NoCode,
    Rs28,
    Rs28Us,
    Rs2m,
    RaptorQ,
    Raptor,
}

impl Scheme {
    pub fn fec_id(&self) -> u8 {
        match self {
            Scheme::NoCode => 0,
            Scheme::Raptor => 1,
            Scheme::Rs2m => 2,
            Scheme::Rs28 => 5,
            Scheme::RaptorQ => 6,
            Scheme::Rs28Us => 129,
        }
    }
    pub fn from_id(id: u8) -> Option<Scheme> {
        Some(match id {
            0 => Scheme::NoCode,
            1 => Scheme::Raptor,
            2 => Scheme::Rs2m,
            5 => Scheme::Rs28,
            6 => Scheme::RaptorQ,
            129 => Scheme::Rs28Us,
            _ => return None,
        })
    }
    pub fn payload_id_len(&self) -> usize {
        match self {
            Scheme::Rs28Us => 8,
            _ => 4,
        }
    }
    pub const ALL: [Scheme; 6] =
        [Scheme::NoCode, Scheme::Rs28, Scheme::Rs28Us, Scheme::Rs2m, Scheme::RaptorQ, Scheme::Raptor];
    /// schemes flute implements end to end
    pub const IMPL: [Scheme; 5] = [Scheme::NoCode, Scheme::Rs28, Scheme::Rs28Us, Scheme::RaptorQ, Scheme::Raptor];
}

#[derive(Debug, Clone, PartialEq, Eq, Serialize, Deserialize)]
pub struct Fti {
    pub scheme: Scheme,
    pub transfer_length: u64,
    pub e: u16,
    /// maximum source block length (No-Code 32 bit, 129 16 bit, RS28 8 bit, RS2m 16 bit); for
    /// RaptorQ / Raptor this is not on the wire (0 here)
    pub b: u32,
    /// max number of encoding symbols (129: 16 bit, RS28: 8 bit, RS2m: 16 bit)
    pub max_n: u32,
    pub fec_instance_id: u16,
    pub m: u8,
    pub g: u8,
    /// Z source blocks (RaptorQ 8 bit, Raptor 16 bit)
    pub z: u16,
    /// N sub-blocks (RaptorQ 16 bit, Raptor 8 bit)
    pub n: u16,
    pub al: u8,
}

impl Fti {
    pub fn blank(scheme: Scheme) -> Fti {
        Fti { scheme, transfer_length: 0, e: 0, b: 0, max_n: 0, fec_instance_id: 0, m: 0, g: 0, z: 0, n: 0, al: 0 }
    }
}

/// Encode EXT_FTI.  General format (RFC 5775 / RFC 6726 §... EXT_FTI): HET=64 | HEL | then the
/// scheme's Common and Scheme-Specific OTI in the layout of the scheme's RFC.
pub fn encode(f: &Fti) -> Ext {
    let mut b: Vec<u8> = vec![64, 0];
    let tl48 = &f.transfer_length.to_be_bytes()[2..8];
    match f.scheme {
        Scheme::NoCode => {
            // Transfer Length (48) | Reserved (16) | Encoding Symbol Length (16) | Max Source Block Length (32)
            b.extend_from_slice(tl48);
            b.extend_from_slice(&[0, 0]);
            b.extend_from_slice(&f.e.to_be_bytes());
            b.extend_from_slice(&f.b.to_be_bytes());
        }
        Scheme::Rs28Us => {
            // Transfer Length (48) | FEC Instance ID (16) | E (16) | Max Source Block Length (16) | Max Num Enc Symbols (16)
            b.extend_from_slice(tl48);
            b.extend_from_slice(&f.fec_instance_id.to_be_bytes());
            b.extend_from_slice(&f.e.to_be_bytes());
            b.extend_from_slice(&(f.b as u16).to_be_bytes());
            b.extend_from_slice(&(f.max_n as u16).to_be_bytes());
        }
        Scheme::Rs28 => {
            // Transfer Length (48) | E (16) | B (8) | max_n (8)
            b.extend_from_slice(tl48);
            b.extend_from_slice(&f.e.to_be_bytes());
            b.push(f.b as u8);
            b.push(f.max_n as u8);
        }
        Scheme::Rs2m => {
            // Transfer Length (48) | m (8) | G (8) | E (16) | B (16) | max_n (16)
            b.extend_from_slice(tl48);
            b.push(f.m);
            b.push(f.g);
            b.extend_from_slice(&f.e.to_be_bytes());
            b.extend_from_slice(&(f.b as u16).to_be_bytes());
            b.extend_from_slice(&(f.max_n as u16).to_be_bytes());
        }
        Scheme::RaptorQ => {
            // F (40) | Reserved (8) | T (16) | Z (8) | N (16) | Al (8) | padding to a word (16)
            b.extend_from_slice(&f.transfer_length.to_be_bytes()[3..8]);
            b.push(0);
            b.extend_from_slice(&f.e.to_be_bytes());
            b.push(f.z as u8);
            b.extend_from_slice(&f.n.to_be_bytes());
            b.push(f.al);
            b.extend_from_slice(&[0, 0]);
        }
        Scheme::Raptor => {
            // NOTE: flute lays Raptor out like RaptorQ with Z 16 bit / N 8 bit:
            //   F (40) | Reserved (8) | T (16) | Z (16) | N (8) | Al (8) | padding (16).
            // My recollection of RFC 5053 Fig. 2 is a 48-bit transfer length followed by 16
            // reserved bits; the RFC text is not available in this sandbox, so this layout is NOT
            // used as an oracle against flute (DESIGN.md section 4, C06 limits).  The reference
            // mirrors the 40-bit layout so that Raptor sessions can be decoded at all.
            b.extend_from_slice(&f.transfer_length.to_be_bytes()[3..8]);
            b.push(0);
            b.extend_from_slice(&f.e.to_be_bytes());
            b.extend_from_slice(&f.z.to_be_bytes());
            b.push(f.n as u8);
            b.push(f.al);
            b.extend_from_slice(&[0, 0]);
        }
    }
    debug_assert!(b.len() % 4 == 0);
    b[1] = (b.len() / 4) as u8;
    Ext { het: 64, bytes: b }
}

fn u16at(b: &[u8], o: usize) -> u16 {
    u16::from_be_bytes([b[o], b[o + 1]])
}

fn u48at(b: &[u8], o: usize) -> u64 {
    let mut v = 0u64;
    for i in 0..6 {
        v = (v << 8) | b[o + i] as u64;
    }
    v
}

fn u40at(b: &[u8], o: usize) -> u64 {
    let mut v = 0u64;
    for i in 0..5 {
        v = (v << 8) | b[o + i] as u64;
    }
    v
}

pub fn decode(scheme: Scheme, e: &Ext) -> Result<Fti, String> {
    let b = &e.bytes;
    let need = match scheme {
        Scheme::Rs28 => 12,
        _ => 16,
    };
    if b.len() != need {
        return Err(format!("EXT_FTI of {} bytes, scheme {:?} needs {}", b.len(), scheme, need));
    }
    let mut f = Fti::blank(scheme);
    match scheme {
        Scheme::NoCode => {
            f.transfer_length = u48at(b, 2);
            f.e = u16at(b, 10);
            f.b = u32::from_be_bytes([b[12], b[13], b[14], b[15]]);
        }
        Scheme::Rs28Us => {
            f.transfer_length = u48at(b, 2);
            f.fec_instance_id = u16at(b, 8);
            f.e = u16at(b, 10);
            f.b = u16at(b, 12) as u32;
            f.max_n = u16at(b, 14) as u32;
        }
        Scheme::Rs28 => {
            f.transfer_length = u48at(b, 2);
            f.e = u16at(b, 8);
            f.b = b[10] as u32;
            f.max_n = b[11] as u32;
        }
        Scheme::Rs2m => {
            f.transfer_length = u48at(b, 2);
            f.m = b[8];
            f.g = b[9];
            f.e = u16at(b, 10);
            f.b = u16at(b, 12) as u32;
            f.max_n = u16at(b, 14) as u32;
        }
        Scheme::RaptorQ => {
            f.transfer_length = u40at(b, 2);
            f.e = u16at(b, 8);
            f.z = b[10] as u16;
            f.n = u16at(b, 11);
            f.al = b[13];
        }
        Scheme::Raptor => {
            f.transfer_length = u40at(b, 2);
            f.e = u16at(b, 8);
            f.z = u16at(b, 10);
            f.n = b[12] as u16;
            f.al = b[13];
        }
    }
    Ok(f)
}

/// widths of the FEC payload id fields (SBN bits, ESI bits); RS GF(2^m) depends on m
pub fn payload_id_bits(scheme: Scheme, m: u8) -> (u32, u32) {
    match scheme {
        Scheme::NoCode => (16, 16),
        Scheme::Raptor => (16, 16),
        Scheme::Rs28 => (24, 8),
        Scheme::RaptorQ => (8, 24),
        Scheme::Rs28Us => (32, 16),
        Scheme::Rs2m => {
            // m is 2..16 per RFC 5510; out-of-range values (hostile FTIs in C04) are clamped so
            // that the reference code itself never overflows
            let m = (if m == 0 { 8 } else { m } as u32).clamp(1, 31);
            (32 - m, m)
        }
    }
}

#[derive(Debug, Clone, Copy, PartialEq, Eq, Serialize, Deserialize)]
pub struct PayloadId {
    pub sbn: u32,
    pub esi: u32,
    /// source block length, FEC 129 only
    pub sbl: Option<u16>,
}

pub fn encode_payload_id(scheme: Scheme, m: u8, p: &PayloadId) -> Vec<u8> {
    match scheme {
        Scheme::Rs28Us => {
            let mut b = p.sbn.to_be_bytes().to_vec();
            b.extend_from_slice(&p.sbl.unwrap_or(0).to_be_bytes());
            b.extend_from_slice(&(p.esi as u16).to_be_bytes());
            b
        }
        _ => {
            let (_, eb) = payload_id_bits(scheme, m);
            let w: u32 = if eb >= 32 { p.esi } else { (p.sbn << eb) | (p.esi & ((1u32 << eb) - 1)) };
            w.to_be_bytes().to_vec()
        }
    }
}

pub fn decode_payload_id(scheme: Scheme, m: u8, b: &[u8]) -> Result<PayloadId, String> {
    if b.len() < scheme.payload_id_len() {
        return Err("datagram ends inside the FEC payload id".into());
    }
    match scheme {
        Scheme::Rs28Us => Ok(PayloadId {
            sbn: u32::from_be_bytes([b[0], b[1], b[2], b[3]]),
            sbl: Some(u16at(b, 4)),
            esi: u16at(b, 6) as u32,
        }),
        _ => {
            let (_, eb) = payload_id_bits(scheme, m);
            let w = u32::from_be_bytes([b[0], b[1], b[2], b[3]]);
            Ok(PayloadId { sbn: if eb >= 32 { 0 } else { w >> eb }, esi: w & (((1u64 << eb) - 1) as u32), sbl: None })
        }
    }
}
