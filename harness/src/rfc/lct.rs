//! LCT header (RFC 5651 §5.1) and header extensions (§5.2), written from the RFC figures.
//!
//!  0                   1                   2                   3
//!  0 1 2 3 4 5 6 7 8 9 0 1 2 3 4 5 6 7 8 9 0 1 2 3 4 5 6 7 8 9 0 1
//! |   V   | C |PSI|S| O |H|Res|A|B|   HDR_LEN     | Codepoint (CP)|
//! | CCI  32*(C+1) bits | TSI 32*S+16*H bits | TOI 32*O+16*H bits | extensions ...

use serde::{Deserialize, Serialize};

#[derive(Debug, Clone, PartialEq, Eq, Serialize, Deserialize)]
pub struct Ext {
    pub het: u8,
    /// the whole extension, including HET (and HEL when HET < 128)
    pub bytes: Vec<u8>,
}

#[derive(Debug, Clone, PartialEq, Eq)]
pub struct Lct {
    pub version: u8,
    pub c: u8,
    pub psi: u8,
    pub s: u8,
    pub o: u8,
    pub h: u8,
    pub res: u8,
    pub close_session: bool,
    pub close_object: bool,
    pub hdr_len_words: u8,
    pub cp: u8,
    pub cci: u128,
    pub tsi: u64,
    pub toi: u128,
    pub tsi_bytes: usize,
    pub toi_bytes: usize,
    pub exts: Vec<Ext>,
    /// length of the LCT header in bytes (= offset of the FEC payload id)
    pub header_len: usize,
}

fn be(bytes: &[u8]) -> u128 {
    let mut v: u128 = 0;
    for b in bytes {
        v = (v << 8) | *b as u128;
    }
    v
}

pub fn decode(d: &[u8]) -> Result<Lct, String> {
    if d.len() < 4 {
        return Err(format!("datagram of {} bytes is shorter than the fixed LCT word", d.len()));
    }
    let version = d[0] >> 4;
    let c = (d[0] >> 2) & 3;
    let psi = d[0] & 3;
    let s = d[1] >> 7;
    let o = (d[1] >> 5) & 3;
    let h = (d[1] >> 4) & 1;
    let res = (d[1] >> 2) & 3;
    let a = (d[1] >> 1) & 1;
    let b = d[1] & 1;
    let hdr_len_words = d[2];
    let cp = d[3];
    let header_len = hdr_len_words as usize * 4;
    if header_len > d.len() {
        return Err(format!("HDR_LEN {} words exceeds datagram of {} bytes", hdr_len_words, d.len()));
    }
    let cci_bytes = 4 * (c as usize + 1);
    let tsi_bytes = 4 * s as usize + 2 * h as usize;
    let toi_bytes = 4 * o as usize + 2 * h as usize;
    let fixed = 4 + cci_bytes + tsi_bytes + toi_bytes;
    if fixed > header_len {
        return Err(format!("fixed fields need {} bytes but HDR_LEN says {}", fixed, header_len));
    }
    let mut off = 4;
    let cci = be(&d[off..off + cci_bytes]);
    off += cci_bytes;
    let tsi = be(&d[off..off + tsi_bytes]) as u64;
    off += tsi_bytes;
    let toi = be(&d[off..off + toi_bytes]);
    off += toi_bytes;
    let mut exts = vec![];
    while off < header_len {
        if header_len - off < 4 {
            return Err("header extension area is not a whole number of words".into());
        }
        let het = d[off];
        let len = if het >= 128 {
            4
        } else {
            let hel = d[off + 1] as usize;
            if hel == 0 {
                return Err(format!("HEL 0 for HET {}", het));
            }
            hel * 4
        };
        if off + len > header_len {
            return Err(format!("extension HET {} of {} bytes runs past HDR_LEN", het, len));
        }
        exts.push(Ext { het, bytes: d[off..off + len].to_vec() });
        off += len;
    }
    Ok(Lct {
        version,
        c,
        psi,
        s,
        o,
        h,
        res,
        close_session: a == 1,
        close_object: b == 1,
        hdr_len_words,
        cp,
        cci,
        tsi,
        toi,
        tsi_bytes,
        toi_bytes,
        exts,
        header_len,
    })
}

impl Lct {
    pub fn ext(&self, het: u8) -> Option<&Ext> {
        self.exts.iter().find(|e| e.het == het)
    }
}

/// How to lay out a reference-built header.  Field widths are explicit so that values can be
/// carried in wider-than-minimal fields (legal, and something flute's own builder never does).
#[derive(Debug, Clone, Serialize, Deserialize)]
pub struct LctSpec {
    pub version: u8,
    pub psi: u8,
    pub res: u8,
    /// C flag 0..3 -> CCI of 32*(C+1) bits
    pub c: u8,
    #[serde(with = "crate::spec::u128s")]
    pub cci: u128,
    /// S flag 0..1
    pub s: u8,
    /// O flag 0..3
    pub o: u8,
    /// H flag 0..1
    pub h: u8,
    pub tsi: u64,
    #[serde(with = "crate::spec::u128s")]
    pub toi: u128,
    pub cp: u8,
    pub close_session: bool,
    pub close_object: bool,
    pub exts: Vec<Ext>,
}

pub fn width_ok(spec: &LctSpec) -> bool {
    let tsi_bits = 32 * spec.s as u32 + 16 * spec.h as u32;
    let toi_bits = 32 * spec.o as u32 + 16 * spec.h as u32;
    let cci_bits = 32 * (spec.c as u32 + 1);
    (tsi_bits >= 64 || (spec.tsi as u128) < (1u128 << tsi_bits))
        && (toi_bits >= 128 || spec.toi < (1u128 << toi_bits))
        && (cci_bits >= 128 || spec.cci < (1u128 << cci_bits))
}

pub fn build(spec: &LctSpec) -> Vec<u8> {
    let mut d = vec![0u8; 4];
    d[0] = (spec.version << 4) | ((spec.c & 3) << 2) | (spec.psi & 3);
    d[1] = ((spec.s & 1) << 7)
        | ((spec.o & 3) << 5)
        | ((spec.h & 1) << 4)
        | ((spec.res & 3) << 2)
        | ((spec.close_session as u8) << 1)
        | (spec.close_object as u8);
    d[3] = spec.cp;
    let cci_bytes = 4 * (spec.c as usize + 1);
    let tsi_bytes = 4 * spec.s as usize + 2 * spec.h as usize;
    let toi_bytes = 4 * spec.o as usize + 2 * spec.h as usize;
    d.extend_from_slice(&spec.cci.to_be_bytes()[16 - cci_bytes..]);
    d.extend_from_slice(&spec.tsi.to_be_bytes()[8 - tsi_bytes..]);
    d.extend_from_slice(&spec.toi.to_be_bytes()[16 - toi_bytes..]);
    for e in &spec.exts {
        d.extend_from_slice(&e.bytes);
    }
    debug_assert!(d.len() % 4 == 0);
    d[2] = (d.len() / 4) as u8;
    d
}

/// minimal field widths for a TSI/TOI pair (RFC 5651: both fields share the H flag)
pub fn minimal_widths(tsi: u64, toi: u128) -> (u8, u8, u8) {
    fn halfwords(v: u128) -> u32 {
        let bits = 128 - v.leading_zeros();
        ((bits + 15) / 16).max(1)
    }
    let th = halfwords(tsi as u128); // 1..4
    let oh = halfwords(toi); // 1..8
    // try H=0 then H=1, take the smallest total
    let mut best: Option<(u32, u8, u8, u8)> = None;
    for h in 0..2u32 {
        // field = 2*S + h halfwords >= th ; S in 0..=1
        let s = if th <= h { 0 } else { (th - h + 1) / 2 };
        let o = if oh <= h { 0 } else { (oh - h + 1) / 2 };
        if s > 1 || o > 3 {
            continue;
        }
        let total = 2 * s + h + 2 * o + h;
        if best.map(|b| total < b.0).unwrap_or(true) {
            best = Some((total, s as u8, o as u8, h as u8));
        }
    }
    let b = best.unwrap_or((0, 1, 3, 1));
    (b.1, b.2, b.3)
}

// ---- well-known extensions ---------------------------------------------------------------

pub const EXT_NOP: u8 = 0;
pub const EXT_AUTH: u8 = 1;
pub const EXT_TIME: u8 = 2;
pub const EXT_FTI: u8 = 64;
pub const EXT_FDT: u8 = 192;
pub const EXT_CENC: u8 = 193;

/// EXT_FDT (RFC 6726 §3.4.1): HET=192 | V (4 bits) | FDT Instance ID (20 bits)
pub fn ext_fdt(version: u8, instance_id: u32) -> Ext {
    let w: u32 = (192u32 << 24) | ((version as u32 & 0xF) << 20) | (instance_id & 0xFFFFF);
    Ext { het: 192, bytes: w.to_be_bytes().to_vec() }
}

pub fn parse_ext_fdt(e: &Ext) -> Result<(u8, u32), String> {
    if e.bytes.len() != 4 {
        return Err("EXT_FDT is not one word".into());
    }
    let w = u32::from_be_bytes([e.bytes[0], e.bytes[1], e.bytes[2], e.bytes[3]]);
    Ok((((w >> 20) & 0xF) as u8, w & 0xFFFFF))
}

/// EXT_CENC (RFC 6726 §3.4.3): HET=193 | CENC (8 bits) | Reserved (16 bits)
pub fn ext_cenc(cenc: u8) -> Ext {
    Ext { het: 193, bytes: vec![193, cenc, 0, 0] }
}

pub fn parse_ext_cenc(e: &Ext) -> Result<u8, String> {
    if e.bytes.len() != 4 {
        return Err("EXT_CENC is not one word".into());
    }
    Ok(e.bytes[1])
}

/// EXT_TIME (RFC 5651 §5.2.2): HET=2 | HEL | Use (16 bits: SCT-Hi, SCT-Low, ERT, SLC, ...) then
/// one 32-bit word per flag set, in that order.
#[derive(Debug, Clone, Default, PartialEq, Eq, Serialize, Deserialize)]
pub struct ExtTime {
    pub sct_hi: Option<u32>,
    pub sct_low: Option<u32>,
    pub ert: Option<u32>,
    pub slc: Option<u32>,
}

pub fn ext_time(t: &ExtTime) -> Ext {
    let mut usebits: u16 = 0;
    let mut words: Vec<u32> = vec![];
    if let Some(v) = t.sct_hi {
        usebits |= 1 << 15;
        words.push(v);
    }
    if let Some(v) = t.sct_low {
        usebits |= 1 << 14;
        words.push(v);
    }
    if let Some(v) = t.ert {
        usebits |= 1 << 13;
        words.push(v);
    }
    if let Some(v) = t.slc {
        usebits |= 1 << 12;
        words.push(v);
    }
    let mut b = vec![2u8, (1 + words.len()) as u8];
    b.extend_from_slice(&usebits.to_be_bytes());
    for w in words {
        b.extend_from_slice(&w.to_be_bytes());
    }
    Ext { het: 2, bytes: b }
}

pub fn parse_ext_time(e: &Ext) -> Result<ExtTime, String> {
    if e.bytes.len() < 4 {
        return Err("EXT_TIME too short".into());
    }
    let usebits = u16::from_be_bytes([e.bytes[2], e.bytes[3]]);
    let mut off = 4;
    let mut take = |present: bool| -> Result<Option<u32>, String> {
        if !present {
            return Ok(None);
        }
        if off + 4 > e.bytes.len() {
            return Err("EXT_TIME shorter than its Use bits announce".into());
        }
        let v = u32::from_be_bytes([e.bytes[off], e.bytes[off + 1], e.bytes[off + 2], e.bytes[off + 3]]);
        off += 4;
        Ok(Some(v))
    };
    let sct_hi = take(usebits & (1 << 15) != 0)?;
    let sct_low = take(usebits & (1 << 14) != 0)?;
    let ert = take(usebits & (1 << 13) != 0)?;
    let slc = take(usebits & (1 << 12) != 0)?;
    Ok(ExtTime { sct_hi, sct_low, ert, slc })
}

/// an extension flute does not know, variable length (HET < 128) of `words` 32-bit words
pub fn ext_unknown_var(het: u8, words: u8, fill: u8) -> Ext {
    assert!(het < 128 && words >= 1);
    let mut b = vec![fill; words as usize * 4];
    b[0] = het;
    b[1] = words;
    Ext { het, bytes: b }
}

/// an extension flute does not know, fixed length (HET >= 128)
pub fn ext_unknown_fixed(het: u8, content: [u8; 3]) -> Ext {
    assert!(het >= 128);
    Ext { het, bytes: vec![het, content[0], content[1], content[2]] }
}
