//! A small, strict, independent XML 1.0 reader (elements, attributes, character data,
//! predefined and numeric entities, comments, CDATA, XML declaration).  Shares nothing with
//! quick-xml.  No DTD support: a document with a DOCTYPE is rejected (flute never emits one).

use std::collections::BTreeMap;

#[derive(Debug, Clone, PartialEq)]
pub struct Element {
    pub name: String,
    pub attrs: Vec<(String, String)>,
    pub children: Vec<Element>,
    pub text: String,
}

impl Element {
    pub fn attr(&self, name: &str) -> Option<&str> {
        self.attrs.iter().find(|(k, _)| k == name).map(|(_, v)| v.as_str())
    }
    /// attribute by local name (ignoring any prefix)
    pub fn attr_local(&self, local: &str) -> Option<&str> {
        self.attrs.iter().find(|(k, _)| local_name(k) == local).map(|(_, v)| v.as_str())
    }
    pub fn children_local<'a>(&'a self, local: &'a str) -> impl Iterator<Item = &'a Element> + 'a {
        self.children.iter().filter(move |c| local_name(&c.name) == local)
    }
    pub fn attr_map(&self) -> BTreeMap<String, String> {
        self.attrs.iter().cloned().collect()
    }
}

pub fn local_name(q: &str) -> &str {
    match q.rfind(':') {
        Some(i) => &q[i + 1..],
        None => q,
    }
}

struct P<'a> {
    s: &'a [u8],
    i: usize,
}

fn is_name_start(c: char) -> bool {
    c == ':' || c == '_' || c.is_ascii_alphabetic() || (c as u32) >= 0x80
}

fn is_name_char(c: char) -> bool {
    is_name_start(c) || c == '-' || c == '.' || c.is_ascii_digit()
}

fn is_xml_char(c: char) -> bool {
    let u = c as u32;
    u == 0x9 || u == 0xA || u == 0xD || (0x20..=0xD7FF).contains(&u) || (0xE000..=0xFFFD).contains(&u) || u >= 0x10000
}

impl<'a> P<'a> {
    fn rest(&self) -> &'a [u8] {
        &self.s[self.i..]
    }
    fn starts(&self, p: &str) -> bool {
        self.rest().starts_with(p.as_bytes())
    }
    fn skip_ws(&mut self) {
        while self.i < self.s.len() && matches!(self.s[self.i], b' ' | b'\t' | b'\r' | b'\n') {
            self.i += 1;
        }
    }
    fn err<T>(&self, m: &str) -> Result<T, String> {
        Err(format!("XML not well-formed at byte {}: {}", self.i, m))
    }
    fn name(&mut self) -> Result<String, String> {
        let rest = self.rest();
        let st = match std::str::from_utf8(rest) {
            Ok(s) => s,
            Err(e) => std::str::from_utf8(&rest[..e.valid_up_to()]).unwrap_or(""),
        };
        let mut len = 0;
        for (idx, c) in st.char_indices() {
            let ok = if idx == 0 { is_name_start(c) } else { is_name_char(c) };
            if !ok {
                break;
            }
            len = idx + c.len_utf8();
        }
        if len == 0 {
            return self.err("name expected");
        }
        let n = st[..len].to_string();
        self.i += len;
        Ok(n)
    }
    fn reference(&mut self, out: &mut String) -> Result<(), String> {
        // self.s[self.i] == '&'
        let end = match self.rest().iter().position(|b| *b == b';') {
            Some(e) => e,
            None => return self.err("unterminated entity reference"),
        };
        let body = std::str::from_utf8(&self.rest()[1..end]).map_err(|_| "invalid UTF-8 in reference".to_string())?;
        let c = match body {
            "lt" => '<',
            "gt" => '>',
            "amp" => '&',
            "quot" => '"',
            "apos" => '\'',
            _ if body.starts_with("#x") => {
                let v = u32::from_str_radix(&body[2..], 16).map_err(|_| format!("bad char ref &{};", body))?;
                char::from_u32(v).filter(|c| is_xml_char(*c)).ok_or(format!("char ref &{}; is not an XML char", body))?
            }
            _ if body.starts_with('#') => {
                let v: u32 = body[1..].parse().map_err(|_| format!("bad char ref &{};", body))?;
                char::from_u32(v).filter(|c| is_xml_char(*c)).ok_or(format!("char ref &{}; is not an XML char", body))?
            }
            _ => return self.err(&format!("undefined entity &{};", body)),
        };
        out.push(c);
        self.i += end + 1;
        Ok(())
    }
    fn attr_value(&mut self) -> Result<String, String> {
        if self.i >= self.s.len() {
            return self.err("attribute value expected");
        }
        let q = self.s[self.i];
        if q != b'"' && q != b'\'' {
            return self.err("attribute value must be quoted");
        }
        self.i += 1;
        let mut out = String::new();
        loop {
            if self.i >= self.s.len() {
                return self.err("unterminated attribute value");
            }
            let b = self.s[self.i];
            if b == q {
                self.i += 1;
                return Ok(out);
            }
            match b {
                b'<' => return self.err("'<' in attribute value"),
                b'&' => self.reference(&mut out)?,
                b'\t' | b'\n' => {
                    // attribute-value normalisation (XML 1.0 §3.3.3)
                    out.push(' ');
                    self.i += 1;
                }
                b'\r' => {
                    out.push(' ');
                    self.i += 1;
                    if self.i < self.s.len() && self.s[self.i] == b'\n' {
                        self.i += 1;
                    }
                }
                _ => {
                    let c = self.next_char()?;
                    out.push(c);
                }
            }
        }
    }
    fn next_char(&mut self) -> Result<char, String> {
        let r = self.rest();
        let w = match r[0] {
            0x00..=0x7F => 1,
            0xC0..=0xDF => 2,
            0xE0..=0xEF => 3,
            0xF0..=0xF7 => 4,
            _ => return self.err("invalid UTF-8 lead byte"),
        };
        if r.len() < w {
            return self.err("truncated UTF-8");
        }
        let s = std::str::from_utf8(&r[..w]).map_err(|_| format!("invalid UTF-8 at byte {}", self.i))?;
        let c = s.chars().next().unwrap();
        if !is_xml_char(c) {
            return self.err(&format!("U+{:04X} is not allowed in XML 1.0", c as u32));
        }
        self.i += w;
        Ok(c)
    }
    fn misc(&mut self) -> Result<(), String> {
        loop {
            self.skip_ws();
            if self.starts("<!--") {
                self.comment()?;
            } else if self.starts("<?") {
                self.pi()?;
            } else {
                return Ok(());
            }
        }
    }
    fn comment(&mut self) -> Result<(), String> {
        self.i += 4;
        match find(self.rest(), b"--") {
            Some(e) => {
                if !self.rest()[e..].starts_with(b"-->") {
                    return self.err("'--' inside comment");
                }
                self.i += e + 3;
                Ok(())
            }
            None => self.err("unterminated comment"),
        }
    }
    fn pi(&mut self) -> Result<(), String> {
        match find(self.rest(), b"?>") {
            Some(e) => {
                self.i += e + 2;
                Ok(())
            }
            None => self.err("unterminated processing instruction"),
        }
    }
    fn element(&mut self, depth: usize) -> Result<Element, String> {
        if depth > 256 {
            return self.err("nesting too deep");
        }
        if !self.starts("<") {
            return self.err("'<' expected");
        }
        self.i += 1;
        let name = self.name()?;
        let mut attrs: Vec<(String, String)> = vec![];
        loop {
            let before = self.i;
            self.skip_ws();
            if self.starts("/>") {
                self.i += 2;
                return Ok(Element { name, attrs, children: vec![], text: String::new() });
            }
            if self.starts(">") {
                self.i += 1;
                break;
            }
            if self.i == before {
                return self.err("whitespace expected between attributes");
            }
            let an = self.name()?;
            self.skip_ws();
            if !self.starts("=") {
                return self.err("'=' expected");
            }
            self.i += 1;
            self.skip_ws();
            let av = self.attr_value()?;
            if attrs.iter().any(|(k, _)| *k == an) {
                return self.err(&format!("duplicate attribute {}", an));
            }
            attrs.push((an, av));
        }
        let mut children = vec![];
        let mut text = String::new();
        loop {
            if self.i >= self.s.len() {
                return self.err(&format!("unterminated element {}", name));
            }
            if self.starts("</") {
                self.i += 2;
                let en = self.name()?;
                if en != name {
                    return self.err(&format!("end tag {} does not match {}", en, name));
                }
                self.skip_ws();
                if !self.starts(">") {
                    return self.err("'>' expected");
                }
                self.i += 1;
                return Ok(Element { name, attrs, children, text });
            } else if self.starts("<!--") {
                self.comment()?;
            } else if self.starts("<![CDATA[") {
                self.i += 9;
                match find(self.rest(), b"]]>") {
                    Some(e) => {
                        let s = std::str::from_utf8(&self.rest()[..e]).map_err(|_| "invalid UTF-8 in CDATA".to_string())?;
                        text.push_str(s);
                        self.i += e + 3;
                    }
                    None => return self.err("unterminated CDATA"),
                }
            } else if self.starts("<?") {
                self.pi()?;
            } else if self.starts("<!") {
                return self.err("markup declaration inside content");
            } else if self.starts("<") {
                children.push(self.element(depth + 1)?);
            } else if self.starts("&") {
                self.reference(&mut text)?;
            } else {
                if self.starts("]]>") {
                    return self.err("']]>' in character data");
                }
                let c = self.next_char()?;
                text.push(c);
            }
        }
    }
}

fn find(h: &[u8], n: &[u8]) -> Option<usize> {
    h.windows(n.len()).position(|w| w == n)
}

pub fn parse(doc: &[u8]) -> Result<Element, String> {
    let mut p = P { s: doc, i: 0 };
    if p.starts("\u{feff}") {
        p.i += 3;
    }
    if p.starts("<?xml") {
        p.pi()?;
    }
    p.misc()?;
    if p.starts("<!DOCTYPE") {
        return p.err("DOCTYPE not supported by the reference reader");
    }
    let root = p.element(0)?;
    p.misc()?;
    if p.i != doc.len() {
        return p.err("content after the root element");
    }
    Ok(root)
}

/// escape for an attribute value in double quotes / for character data
pub fn escape(s: &str) -> String {
    let mut o = String::with_capacity(s.len() + 8);
    for c in s.chars() {
        match c {
            '<' => o.push_str("&lt;"),
            '>' => o.push_str("&gt;"),
            '&' => o.push_str("&amp;"),
            '"' => o.push_str("&quot;"),
            '\'' => o.push_str("&apos;"),
            '\t' => o.push_str("&#9;"),
            '\n' => o.push_str("&#10;"),
            '\r' => o.push_str("&#13;"),
            _ => o.push(c),
        }
    }
    o
}
