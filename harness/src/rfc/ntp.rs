//! NTP timestamp <-> UNIX time with exact integer arithmetic (RFC 5905 §6: seconds since
//! 1900-01-01, 32-bit fraction).  Era 0 only (seconds < 2^32), as flute's wire fields are.

pub const NTP_UNIX_OFFSET: u64 = 2_208_988_800;

/// UNIX time in nanoseconds -> (seconds, fraction), fraction floored
pub fn from_unix_nanos(ns: u128) -> Option<(u32, u32)> {
    let secs = (ns / 1_000_000_000) as u64 + NTP_UNIX_OFFSET;
    if secs > u32::MAX as u64 {
        return None;
    }
    let sub = ns % 1_000_000_000;
    let frac = (sub << 32) / 1_000_000_000;
    Some((secs as u32, frac as u32))
}

/// (seconds, fraction) -> UNIX time in nanoseconds, floored; None before 1970
pub fn to_unix_nanos(secs: u32, frac: u32) -> Option<u128> {
    if (secs as u64) < NTP_UNIX_OFFSET {
        return None;
    }
    let s = (secs as u64 - NTP_UNIX_OFFSET) as u128;
    Some(s * 1_000_000_000 + ((frac as u128 * 1_000_000_000) >> 32))
}

pub fn ntp_seconds_of_unix(unix_secs: u64) -> u64 {
    unix_secs + NTP_UNIX_OFFSET
}

pub fn system_time_nanos(t: std::time::SystemTime) -> u128 {
    t.duration_since(std::time::UNIX_EPOCH).map(|d| d.as_nanos()).unwrap_or(0)
}

pub fn system_time_from_nanos(ns: u128) -> std::time::SystemTime {
    std::time::UNIX_EPOCH + std::time::Duration::new((ns / 1_000_000_000) as u64, (ns % 1_000_000_000) as u32)
}
