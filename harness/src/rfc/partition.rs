//! Block partitioning, RFC 5052 §9.1, in u128 so that nothing can overflow for L < 2^48,
//! E <= 65535, B < 2^32.
//!
//!   T = ceil(L/E)   N = ceil(T/B)   A_large = ceil(T/N)   A_small = floor(T/N)
//!   I = T - A_small*N   -- the first I blocks have A_large symbols, the other N-I have A_small.

#[derive(Debug, Clone, Copy, PartialEq, Eq)]
pub struct Partition {
    pub l: u128,
    pub e: u128,
    pub t: u128,
    pub n: u128,
    pub a_large: u128,
    pub a_small: u128,
    pub i: u128,
}

fn ceil_div(a: u128, b: u128) -> u128 {
    (a + b - 1) / b
}

pub fn partition(l: u128, e: u128, b: u128) -> Option<Partition> {
    if e == 0 || b == 0 {
        return None;
    }
    let t = ceil_div(l, e);
    let n = ceil_div(t, b);
    if n == 0 {
        return Some(Partition { l, e, t: 0, n: 0, a_large: 0, a_small: 0, i: 0 });
    }
    let a_large = ceil_div(t, n);
    let a_small = t / n;
    let i = t - a_small * n;
    Some(Partition { l, e, t, n, a_large, a_small, i })
}

impl Partition {
    /// number of source symbols of block `sbn`
    pub fn k(&self, sbn: u128) -> u128 {
        if sbn < self.i {
            self.a_large
        } else {
            self.a_small
        }
    }
    /// index of the first symbol of block `sbn` within the object
    pub fn first_symbol(&self, sbn: u128) -> u128 {
        if sbn <= self.i {
            sbn * self.a_large
        } else {
            self.i * self.a_large + (sbn - self.i) * self.a_small
        }
    }
    /// byte offset of block `sbn` within the transfer-encoded object
    pub fn offset(&self, sbn: u128) -> u128 {
        self.first_symbol(sbn) * self.e
    }
    /// byte length of block `sbn` (only the last block may be short)
    pub fn block_len(&self, sbn: u128) -> u128 {
        let start = self.offset(sbn);
        let end = (start + self.k(sbn) * self.e).min(self.l);
        end.saturating_sub(start)
    }
    /// byte length of source symbol (sbn, esi) as carried by the object (last one may be short)
    pub fn symbol_len(&self, sbn: u128, esi: u128) -> u128 {
        let start = self.offset(sbn) + esi * self.e;
        let end = (start + self.e).min(self.l);
        end.saturating_sub(start)
    }
}
