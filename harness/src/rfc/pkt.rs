//! One ALC packet (RFC 5775) decoded with the reference LCT / extension / payload-id code.

use super::fti::{self, Fti, PayloadId, Scheme};
use super::lct::{self, ExtTime, Lct};

#[derive(Debug, Clone)]
pub struct Dec {
    pub lct: Lct,
    pub scheme: Scheme,
    pub fdt: Option<(u8, u32)>,
    pub cenc: Option<u8>,
    pub time: Option<ExtTime>,
    pub fti: Option<Fti>,
    pub pid: PayloadId,
    pub payload: Vec<u8>,
}

impl Dec {
    pub fn toi(&self) -> u128 {
        self.lct.toi
    }
    pub fn is_fdt(&self) -> bool {
        self.lct.toi == 0 && self.fdt.is_some()
    }
}

/// `m`: field size of RS GF(2^m) when it is known out of band (0 = take it from the FTI or 8)
pub fn decode(d: &[u8], m_hint: u8) -> Result<Dec, String> {
    let l = lct::decode(d)?;
    if l.version != 1 {
        return Err(format!("LCT version {} (RFC 5651 defines 1)", l.version));
    }
    let scheme = Scheme::from_id(l.cp).ok_or(format!("codepoint {} is not a FEC Encoding ID flute knows", l.cp))?;
    let fdt = match l.ext(lct::EXT_FDT) {
        Some(e) => Some(lct::parse_ext_fdt(e)?),
        None => None,
    };
    let cenc = match l.ext(lct::EXT_CENC) {
        Some(e) => Some(lct::parse_ext_cenc(e)?),
        None => None,
    };
    let time = match l.ext(lct::EXT_TIME) {
        Some(e) => Some(lct::parse_ext_time(e)?),
        None => None,
    };
    let fti = match l.ext(lct::EXT_FTI) {
        Some(e) => Some(fti::decode(scheme, e)?),
        None => None,
    };
    let m = if m_hint != 0 { m_hint } else { fti.as_ref().map(|f| f.m).unwrap_or(0) };
    let rest = &d[l.header_len..];
    let pid = fti::decode_payload_id(scheme, m, rest)?;
    let payload = rest[scheme.payload_id_len()..].to_vec();
    Ok(Dec { lct: l, scheme, fdt, cenc, time, fti, pid, payload })
}
