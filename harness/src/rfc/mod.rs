//! Independent reference code written from the RFC text and figures (oracle side).
pub mod fdt;
pub mod fti;
pub mod lct;
pub mod ntp;
pub mod partition;
pub mod pkt;
pub mod rx;
pub mod xml;
