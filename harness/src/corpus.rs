//! Deterministic corpus of small valid sessions (packets produced by flute's own sender) used by
//! the fault-injection properties (C02, C03, C04, C09, C16): all schemes x signalling modes x
//! content encodings x object shapes x profiles.

use crate::drive::*;
use crate::rfc::fti::Scheme;
use crate::spec::*;
use std::time::{Duration, SystemTime};

#[derive(Debug, Clone)]
pub struct CorpusSession {
    pub idx: usize,
    pub sender: SenderSpec,
    pub objs: Vec<ObjSpec>,
    /// (emission instant, packet bytes)
    pub packets: Vec<(SystemTime, Vec<u8>)>,
    /// (toi, object bytes)
    pub expected: Vec<(u128, Vec<u8>)>,
    pub label: String,
}

pub const N_SHAPES: usize = 3;
pub const CORPUS_TOTAL: usize = 5 * 2 * 4 * N_SHAPES * 2;

/// the session default OTI uses a large symbol so that the FDT instance is a single source symbol;
/// the object carries its own tiny-symbol OTI so that it spans several symbols / blocks
pub fn corpus_spec(idx: usize, tsi: u64) -> (SenderSpec, Vec<ObjSpec>, String) {
    let mut x = idx;
    let mut take = |n: usize| {
        let v = x % n;
        x /= n;
        v
    };
    let scheme = Scheme::IMPL[take(5)];
    let inband = take(2) == 0;
    let cenc = take(4) as u8;
    let shape = take(N_SHAPES);
    let rfc3926 = take(2) == 1;
    let (e, al) = match scheme {
        Scheme::RaptorQ | Scheme::Raptor => (8u16, 4u8),
        _ => (8u16, 1u8),
    };
    let parity = match scheme {
        Scheme::NoCode => 0,
        _ => 2,
    };
    let session_oti = OtiSpec { scheme, e: 4096, b: 8, parity: parity.min(1), inband_fti: true, al, nsub: 1 };
    // object OTI: blocks of 4 symbols (Raptor needs k = 1 or k >= 4)
    let obj_oti = OtiSpec { scheme, e, b: 4, parity, inband_fti: inband, al, nsub: 1 };
    let size = match shape {
        0 => 0usize,
        1 => 4 * e as usize,      // exactly one block of 4 symbols
        _ => 12 * e as usize - if scheme == Scheme::Raptor || cenc != 0 { 0 } else { 3 }, // 3 blocks, short last symbol
    };
    let mut sender = SenderSpec::simple(session_oti);
    sender.tsi = tsi;
    sender.rfc3926 = rfc3926;
    sender.interleave = if idx % 3 == 0 { 2 } else { 1 };
    sender.fdt_start_id = 1 + (idx as u32 % 5);
    let mut o = ObjSpec::simple(size, 1000 + idx as u64);
    o.content.kind = if cenc != 0 { ContentKind::Random } else { ContentKind::Text };
    o.oti = Some(obj_oti);
    o.cenc = cenc;
    // with compression the transfer length is not under control: use incompressible content of a
    // size that keeps Raptor's k away from 2 and 3 (the harness checks and adjusts below)
    o.inband_cenc = inband;
    o.location = format!("file:///corpus/{}", idx);
    let label = format!("{:?}/{}/cenc{}/shape{}/{}", scheme, if inband { "inband" } else { "fdt-only" }, cenc, shape, if rfc3926 { "3926" } else { "6726" });
    (sender, vec![o], label)
}

pub fn build(idx: usize, tsi: u64) -> Result<CorpusSession, String> {
    let (sender, mut objs, label) = corpus_spec(idx % CORPUS_TOTAL, tsi);
    // Raptor: keep every block at k = 1 or k >= 4 and the length a whole number of symbols
    if objs[0].oti.as_ref().unwrap().scheme == Scheme::Raptor && objs[0].cenc != 0 {
        for extra in 0..64usize {
            let mut o = objs[0].clone();
            o.content.size += extra;
            let tl = o.build()?.desc.transfer_length;
            let eff = o.oti.as_ref().unwrap();
            if !crate::props::common::sig_raptor_small_block(eff, tl) {
                objs[0] = o;
                break;
            }
        }
    }
    let mut drv = SenderDriver::new(&sender)?;
    let mut expected = vec![];
    for o in &objs {
        let (toi, bytes) = drv.add(o)?;
        expected.push((toi, bytes));
    }
    drv.publish()?;
    drv.run_until_empty(Duration::from_millis(10), 1000, 5000)?;
    let packets = drv
        .log
        .iter()
        .filter_map(|r| match &r.kind {
            RecKind::Pkt { bytes, .. } => Some((r.t, bytes.clone())),
            _ => None,
        })
        .collect();
    Ok(CorpusSession { idx, sender, objs, packets, expected, label })
}

/// a minimal valid session (one FDT packet, a one-block No-Code object) on the given TSI, used
/// to probe that a receiver is still usable
pub fn probe_session(tsi: u64, seed: u64) -> Result<CorpusSession, String> {
    let mut sender = SenderSpec::simple(OtiSpec::nocode(1024, 8));
    sender.tsi = tsi;
    sender.fdt_start_id = 77;
    let mut o = ObjSpec::simple(40, 5000 + seed);
    o.oti = Some(OtiSpec::nocode(16, 4));
    o.location = format!("file:///probe/{}", seed);
    let mut drv = SenderDriver::new(&sender)?;
    let (toi, bytes) = drv.add(&o)?;
    drv.publish()?;
    drv.run_until_empty(Duration::from_millis(10), 1000, 5000)?;
    let packets = drv
        .log
        .iter()
        .filter_map(|r| match &r.kind {
            RecKind::Pkt { bytes, .. } => Some((r.t, bytes.clone())),
            _ => None,
        })
        .collect();
    Ok(CorpusSession { idx: usize::MAX, sender, objs: vec![o], packets, expected: vec![(toi, bytes)], label: "probe".into() })
}
