//! Small labelled sessions and a harness-controlled channel (loss, duplication, reordering,
//! payload edits) shared by C02, C03, C09 and C16.

use crate::drive::*;
use crate::monitor::{Faults, Monitor, WriterLog};
use crate::rfc::fti::Scheme;
use crate::spec::*;
use crate::stream::{self, WireOti};
use serde::{Deserialize, Serialize};
use std::collections::{BTreeMap, BTreeSet};
use std::time::{Duration, SystemTime};

#[derive(Debug, Clone, PartialEq, Eq, Serialize, Deserialize)]
pub struct SessSpec {
    pub sender: SenderSpec,
    pub objs: Vec<ObjSpec>,
    /// 0: everything at one instant (each FDT instance emitted once);
    /// n>0: after the objects are done the clock advances n times by the FDT carousel period so
    /// that the FDT is repeated; with `interleave_fdt` the clock also advances between object packets
    pub fdt_repeats: u8,
    pub advance_every: u8,
    /// objects in carousel mode: record this many complete cycles of each, then stop
    #[serde(default)]
    pub carousel_cycles: u8,
}

#[derive(Debug, Clone, PartialEq, Eq)]
pub enum PktKind {
    /// FDT packet: instance index into `LabeledSession::fdts`
    Fdt { inst: usize, sbn: u32, esi: u32, source: bool },
    Obj { obj: usize, transfer: usize, sbn: u32, esi: u32, source: bool, close: bool },
    Other,
}

#[derive(Debug, Clone)]
pub struct FdtInfo {
    pub id: u32,
    pub wire: WireOti,
    pub k: Vec<u32>,
    pub lists: Vec<u128>,
    pub rs: bool,
}

#[derive(Debug, Clone)]
pub struct ObjInfo {
    pub toi: u128,
    pub bytes: Vec<u8>,
    pub scheme: Scheme,
    pub k: Vec<u32>,
    pub transfer_len: u64,
    pub md5: bool,
    /// OTI as announced by the in-band EXT_FTI of the object's packets (None: FDT-only signalling)
    pub wire_fti: Option<WireOti>,
    /// OTI as announced by the first FDT instance that lists the object
    pub wire_fdt: Option<WireOti>,
    /// configured (E, B) of the object (own OTI, else the session's)
    pub cfg_e: u16,
    pub cfg_b: u32,
}

#[derive(Debug, Clone)]
pub struct LabeledSession {
    pub spec: SessSpec,
    pub packets: Vec<Vec<u8>>,
    pub times: Vec<SystemTime>,
    pub kinds: Vec<PktKind>,
    pub fdts: Vec<FdtInfo>,
    pub objs: Vec<ObjInfo>,
}

pub fn build_session(spec: &SessSpec) -> Result<LabeledSession, String> {
    let mut drv = SenderDriver::new(&spec.sender)?;
    let mut added = vec![];
    for o in &spec.objs {
        let (toi, bytes) = drv.add(o)?;
        let tl = drv.sender.get_objects_in_fdt().get(&toi).map(|d| d.transfer_length).unwrap_or(0);
        added.push((toi, bytes, tl, o.clone()));
    }
    if spec.sender.full_fdt {
        drv.publish()?;
    }
    let period = match spec.sender.fdt_carousel {
        CarouselSpec::DelayMs(ms) | CarouselSpec::IntervalMs(ms) => Duration::from_millis(ms + 1),
    };
    let mut n = 0usize;
    let mut pk = 0usize;
    loop {
        match drv.read() {
            Some(_) => {
                pk += 1;
                if pk > 4000 {
                    return Err("session too long for the channel checks".into());
                }
                if spec.advance_every > 0 && pk % spec.advance_every as usize == 0 {
                    drv.advance(period);
                }
            }
            None => {
                if drv.sender.nb_objects() == 0 {
                    if drv.read().is_none() {
                        break;
                    }
                    continue;
                }
                if spec.carousel_cycles > 0 {
                    let mut stops: BTreeMap<u128, u32> = BTreeMap::new();
                    for r in &drv.log {
                        if let RecKind::Stop(t) = &r.kind {
                            *stops.entry(*t).or_insert(0) += 1;
                        }
                    }
                    let all_done = added.iter().all(|a| a.3.carousel.is_none() || *stops.get(&a.0).unwrap_or(&0) >= spec.carousel_cycles as u32);
                    let others_done = added.iter().all(|a| a.3.carousel.is_some() || !drv.sender.is_added(a.0));
                    if all_done && others_done {
                        break;
                    }
                }
                n += 1;
                if n > 2000 {
                    return Err("session does not end".into());
                }
                drv.advance(Duration::from_millis(50));
            }
        }
    }
    for _ in 0..spec.fdt_repeats {
        drv.advance(period);
        let mut g = 0;
        while drv.read().is_some() {
            g += 1;
            if g > 4000 {
                break;
            }
        }
    }
    let an = stream::analyse(&drv.log);
    if let Some(e) = an.errors.first() {
        return Err(format!("stream analysis: {}", e));
    }
    let mut fdts = vec![];
    let mut fdt_of_pkt: BTreeMap<usize, usize> = BTreeMap::new();
    for inst in &an.fdts {
        let doc = inst.doc.as_ref().ok_or(format!("FDT instance {} not decodable: {:?}", inst.id, inst.errors))?;
        let wire = stream::wire_oti_from_fti(&inst.fti);
        let part = wire.partition().ok_or("fdt partition")?;
        let k = (0..part.n).map(|s| part.k(s) as u32).collect();
        for p in &inst.pkts {
            fdt_of_pkt.insert(*p, fdts.len());
        }
        fdts.push(FdtInfo {
            id: inst.id,
            wire: wire.clone(),
            k,
            lists: doc.files.iter().map(|f| f.toi).collect(),
            rs: matches!(wire.scheme, Scheme::Rs28 | Scheme::Rs28Us),
        });
    }
    let mut objs = vec![];
    let mut obj_pkt: BTreeMap<usize, (usize, usize)> = BTreeMap::new();
    for (oi, (toi, bytes, tl, o)) in added.iter().enumerate() {
        let wire = an.wire_oti(*toi, &drv.log)?.ok_or("object without wire OTI")?;
        let part = wire.partition().ok_or("object partition")?;
        let mut wire_fti = None;
        if let Some(ts) = an.transfers.get(toi) {
            'find: for t in ts {
                for i in &t.pkts {
                    if let Some((_, d)) = drv.log[*i].pkt() {
                        if let Some(f) = &d.fti {
                            wire_fti = Some(stream::wire_oti_from_fti(f));
                            break 'find;
                        }
                    }
                }
            }
        }
        let mut wire_fdt = None;
        for inst in &an.fdts {
            if let (Some(doc), Some(file)) = (inst.doc.as_ref(), inst.lists(*toi)) {
                wire_fdt = stream::wire_oti_from_fdt(doc, file)?;
                if wire_fdt.is_some() {
                    break;
                }
            }
        }
        let cfg = o.oti.as_ref().unwrap_or(&spec.sender.oti);
        objs.push(ObjInfo {
            toi: *toi,
            bytes: bytes.clone(),
            scheme: wire.scheme,
            k: (0..part.n).map(|s| part.k(s) as u32).collect(),
            transfer_len: *tl,
            md5: o.md5,
            wire_fti,
            wire_fdt,
            cfg_e: cfg.e,
            cfg_b: cfg.b,
        });
        if let Some(ts) = an.transfers.get(toi) {
            for (ti, t) in ts.iter().enumerate() {
                for p in &t.pkts {
                    obj_pkt.insert(*p, (oi, ti));
                }
            }
        }
    }
    let mut packets = vec![];
    let mut times = vec![];
    let mut kinds = vec![];
    for (li, r) in drv.log.iter().enumerate() {
        if let RecKind::Pkt { bytes, dec: Ok(d) } = &r.kind {
            let kind = if let Some(fi) = fdt_of_pkt.get(&li) {
                let k = fdts[*fi].k.get(d.pid.sbn as usize).copied().unwrap_or(0);
                PktKind::Fdt { inst: *fi, sbn: d.pid.sbn, esi: d.pid.esi, source: d.pid.esi < k }
            } else if let Some((oi, ti)) = obj_pkt.get(&li) {
                let k = objs[*oi].k.get(d.pid.sbn as usize).copied().unwrap_or(0);
                PktKind::Obj { obj: *oi, transfer: *ti, sbn: d.pid.sbn, esi: d.pid.esi, source: d.pid.esi < k, close: d.lct.close_object }
            } else {
                PktKind::Other
            };
            packets.push(bytes.clone());
            times.push(r.t);
            kinds.push(kind);
        }
    }
    Ok(LabeledSession { spec: spec.clone(), packets, times, kinds, fdts, objs })
}

impl LabeledSession {
    /// does block-wise reception suffice? `have[sbn]` = set of ESIs received
    fn blocks_ok(k: &[u32], have: &BTreeMap<u32, BTreeSet<u32>>, rs: bool) -> bool {
        for (sbn, kk) in k.iter().enumerate() {
            let got = have.get(&(sbn as u32));
            let ok = match got {
                None => *kk == 0,
                Some(set) => {
                    if rs {
                        set.len() as u32 >= *kk
                    } else {
                        (0..*kk).all(|e| set.contains(&e))
                    }
                }
            };
            if !ok {
                return false;
            }
        }
        true
    }

    /// which FDT instances are recoverable from the delivered packet multiset
    pub fn fdt_recoverable(&self, delivered: &[usize]) -> Vec<bool> {
        let mut have: Vec<BTreeMap<u32, BTreeSet<u32>>> = vec![BTreeMap::new(); self.fdts.len()];
        for i in delivered {
            if let PktKind::Fdt { inst, sbn, esi, .. } = &self.kinds[*i] {
                have[*inst].entry(*sbn).or_default().insert(*esi);
            }
        }
        self.fdts.iter().enumerate().map(|(fi, f)| Self::blocks_ok(&f.k, &have[fi], f.rs)).collect()
    }

    /// the property's premise per object: an FDT instance listing it is recoverable and every block
    /// has k distinct symbols (RS) / all k source symbols (others), counted over all transfers
    pub fn recoverable(&self, delivered: &[usize]) -> Vec<bool> {
        let fr = self.fdt_recoverable(delivered);
        let mut have: Vec<BTreeMap<u32, BTreeSet<u32>>> = vec![BTreeMap::new(); self.objs.len()];
        for i in delivered {
            if let PktKind::Obj { obj, sbn, esi, .. } = &self.kinds[*i] {
                have[*obj].entry(*sbn).or_default().insert(*esi);
            }
        }
        self.objs
            .iter()
            .enumerate()
            .map(|(oi, o)| {
                let listed = self.fdts.iter().enumerate().any(|(fi, f)| fr[fi] && f.lists.contains(&o.toi));
                let rs = matches!(o.scheme, Scheme::Rs28 | Scheme::Rs28Us);
                let any_pkt = o.transfer_len > 0 || delivered.iter().any(|i| matches!(&self.kinds[*i], PktKind::Obj { obj, .. } if *obj == oi));
                listed && any_pkt && Self::blocks_ok(&o.k, &have[oi], rs)
            })
            .collect()
    }

    /// some block of some object sits exactly at its threshold
    pub fn at_threshold(&self, delivered: &[usize]) -> bool {
        let mut have: Vec<BTreeMap<u32, BTreeSet<u32>>> = vec![BTreeMap::new(); self.objs.len()];
        for i in delivered {
            if let PktKind::Obj { obj, sbn, esi, .. } = &self.kinds[*i] {
                have[*obj].entry(*sbn).or_default().insert(*esi);
            }
        }
        self.objs.iter().enumerate().any(|(oi, o)| o.k.iter().enumerate().any(|(sbn, k)| have[oi].get(&(sbn as u32)).map(|s| s.len() as u32 == *k).unwrap_or(false)))
    }
}

#[derive(Debug, Clone, PartialEq, Eq, Serialize, Deserialize)]
pub enum Edit {
    /// flip one bit of the payload of the delivered packet at position `pos`
    Flip { pos: u16, bit: u16 },
    Truncate { pos: u16, keep: u16 },
    Extend { pos: u16, n: u8 },
    /// take the payload of the packet delivered at `from`
    SwapPayload { pos: u16, from: u16 },
}

pub struct Delivery {
    /// writer logs at the end of the history, before the receiver is dropped
    pub writers: Vec<WriterLog>,
    pub writers_after_drop: Vec<WriterLog>,
    pub protocol_errors: Vec<String>,
    pub edited_object_payload: bool,
    /// MultiReceiver::nb_objects_error() at the end of the history (0 unless max_objects_error > 0)
    pub objects_error: usize,
}

fn map_idx(i: u16, len: usize) -> usize {
    if len == 0 {
        0
    } else {
        ((i as usize) * len) >> 16
    }
}

/// deliver `order` (indices into the session's packets, repetitions allowed) to a fresh receiver
pub fn deliver(ls: &LabeledSession, order: &[usize], edits: &[Edit], rx: &RxSpec, faults: Faults, drop_receiver: bool) -> Result<Delivery, String> {
    let mon = Monitor::new(rx.md5_check, faults);
    let mut r = Rx::with_monitor(rx, mon.clone());
    let mut seq: Vec<Vec<u8>> = order.iter().map(|i| ls.packets[*i].clone()).collect();
    let mut edited = false;
    for e in edits {
        if seq.is_empty() {
            break;
        }
        let (pos, f): (usize, Box<dyn Fn(&mut Vec<u8>, usize, &[Vec<u8>])>) = match e {
            Edit::Flip { pos, bit } => {
                let bit = *bit;
                (map_idx(*pos, seq.len()), Box::new(move |p, off, _| {
                    let n = (p.len() - off) * 8;
                    if n > 0 {
                        let b = map_idx(bit, n);
                        p[off + b / 8] ^= 1 << (b % 8);
                    }
                }))
            }
            Edit::Truncate { pos, keep } => {
                let keep = *keep;
                (map_idx(*pos, seq.len()), Box::new(move |p, off, _| {
                    let n = p.len() - off;
                    p.truncate(off + map_idx(keep, n));
                }))
            }
            Edit::Extend { pos, n } => {
                let n = *n;
                (map_idx(*pos, seq.len()), Box::new(move |p, _, _| p.extend(std::iter::repeat(0x77u8).take(n as usize + 1))))
            }
            Edit::SwapPayload { pos, from } => {
                let from = *from;
                (map_idx(*pos, seq.len()), Box::new(move |p, off, all| {
                    let src = &all[map_idx(from, all.len())];
                    if let Ok(d) = crate::rfc::pkt::decode(src, 0) {
                        p.truncate(off);
                        p.extend_from_slice(&d.payload);
                    }
                }))
            }
        };
        // only object payloads are edited (the property's premise); find the payload offset
        let pkt_index = order[pos];
        if let PktKind::Obj { .. } = ls.kinds[pkt_index] {
            if let Ok(d) = crate::rfc::pkt::decode(&seq[pos], 0) {
                let off = seq[pos].len() - d.payload.len();
                let snapshot = seq.clone();
                let before = seq[pos].clone();
                f(&mut seq[pos], off, &snapshot);
                if seq[pos] != before {
                    edited = true;
                }
            }
        }
    }
    for (n, p) in seq.iter().enumerate() {
        let now = t0() + Duration::from_millis(n as u64);
        r.push(p, now);
    }
    let writers = mon.writers();
    let objects_error = r.mr.nb_objects_error();
    let _ = drop_receiver;
    drop(r);
    Ok(Delivery { writers, writers_after_drop: mon.writers(), protocol_errors: mon.protocol_errors(), edited_object_payload: edited, objects_error })
}

// ------------------------------------------------------------------------------------------
// generator of small sessions

use proptest::prelude::*;

#[derive(Debug, Clone, Copy)]
pub struct SmallOpts {
    /// one object in eight is empty
    pub allow_empty: bool,
    pub max_symbols: u32,
    pub allow_cenc: bool,
    pub allow_two_objects: bool,
    pub allow_repeats: bool,
    pub carousel: bool,
}

impl Default for SmallOpts {
    fn default() -> Self {
        SmallOpts { allow_empty: false, max_symbols: 8, allow_cenc: false, allow_two_objects: true, allow_repeats: false, carousel: false }
    }
}

pub fn small_session_strategy(o: SmallOpts) -> BoxedStrategy<SessSpec> {
    let obj = move |idx: usize| {
        (
            crate::gen::scheme_strategy(),
            1u32..=6,            // B
            0u32..=3,            // parity
            1u32..=4,            // blocks
            0u32..6,             // symbols removed from the last block(s) -> unequal blocks
            prop_oneof![Just(4u16), Just(8), Just(16)],
            0u16..16,            // short last symbol
            (any::<bool>(), any::<bool>()), // in-band FTI, in-band CENC (independent of each other)
            prop_oneof![3 => Just(1u32), 1 => Just(2u32)],
            if o.allow_cenc { prop_oneof![3 => Just(0u8), 1 => 1u8..4].boxed() } else { Just(0u8).boxed() },
            any::<bool>(),
            (0u64..1000, 0u8..8),
        )
            .prop_map(move |(scheme, b, parity, blocks, fewer, e, short, (inband, inband_cenc), mtc, cenc, md5, (seed, empty))| {
                let mut b = b;
                let mut blocks = blocks;
                let mut parity = parity;
                if scheme == Scheme::NoCode {
                    parity = 0;
                }
                if scheme == Scheme::Raptor {
                    b = b.max(4);
                }
                // keep the object small
                while b * blocks > o.max_symbols && blocks > 1 {
                    blocks -= 1;
                }
                if b * blocks > o.max_symbols {
                    b = o.max_symbols.max(if scheme == Scheme::Raptor { 4 } else { 1 });
                }
                let mut t = b * blocks - fewer.min(b.saturating_sub(1));
                if scheme == Scheme::Raptor {
                    // every block k = 1 or k >= 4, whole symbols
                    let n = (t + b - 1) / b;
                    if n > 0 && t / n < 4 {
                        t = n * b;
                    }
                }
                // (a short last symbol is fine for flute's own Raptor receiver; that an RFC 5053 receiver
                // would see other symbol boundaries is C08's open finding, not the channel checks' business)
                let short = short % e;
                let size = if o.allow_empty && empty == 0 { 0 } else { (t * e as u32) as usize - short as usize };
                let al = if matches!(scheme, Scheme::RaptorQ | Scheme::Raptor) { 4 } else { 1 };
                let mut ob = ObjSpec::simple(size, seed);
                // RaptorQ sub-blocking (N > 1): the symbol of e/al alignment units is split into N sub-symbols
                let nsub = if scheme == Scheme::RaptorQ && e >= 8 { 1 + (seed % (e as u64 / 4).min(3)) as u16 } else { 1 };
                ob.oti = Some(OtiSpec { scheme, e, b, parity, inband_fti: inband, al, nsub });
                ob.max_transfer_count = mtc;
                ob.cenc = cenc;
                ob.inband_cenc = inband_cenc;
                ob.md5 = md5;
                ob.location = format!("file:///s{}/{}", idx, seed);
                if cenc != 0 {
                    // incompressible, compressible and trivially compressible content (the transfer length
                    // shrinks accordingly; the inflater's trailing output only exists for the latter two)
                    ob.content.kind = match seed % 3 {
                        0 => ContentKind::Random,
                        1 => ContentKind::Text,
                        _ => ContentKind::Zeros,
                    };
                }
                ob
            })
    };
    let objs = if o.allow_two_objects { prop_oneof![4 => obj(0).prop_map(|a| vec![a]), 1 => (obj(0), obj(1)).prop_map(|(a, b)| vec![a, b])].boxed() } else { obj(0).prop_map(|a| vec![a]).boxed() };
    (
        objs,
        crate::gen::scheme_strategy(),
        prop_oneof![3 => Just(4096u16), 1 => Just(640u16)],
        0u32..=2,
        1u8..=4,
        any::<bool>(),
        if o.allow_repeats { prop_oneof![2 => Just(0u8), 1 => 1u8..3].boxed() } else { Just(0u8).boxed() },
        if o.allow_repeats { prop_oneof![3 => Just(0u8), 1 => 1u8..5].boxed() } else { Just(0u8).boxed() },
        any::<bool>(),
    )
        .prop_map(move |(mut objs, sscheme, se, sparity, interleave, full_fdt, fdt_repeats, advance_every, sct)| {
            let al = if matches!(sscheme, Scheme::RaptorQ | Scheme::Raptor) { 4 } else { 1 };
            let session_oti = OtiSpec {
                scheme: sscheme,
                // a Raptor FDT instance must be one symbol (k = 1) or at least 4: keep it at one
                e: if sscheme == Scheme::Raptor { 8192 } else { se },
                b: 8,
                parity: if sscheme == Scheme::NoCode { 0 } else { sparity },
                inband_fti: true,
                al,
                nsub: 1,
            };
            let mut sender = SenderSpec::simple(session_oti);
            sender.interleave = interleave;
            sender.full_fdt = full_fdt;
            sender.inband_sct = sct;
            sender.fdt_carousel = CarouselSpec::DelayMs(100);
            // Raptor objects under compression cannot be kept away from k in {2,3}: no cenc there
            for ob in objs.iter_mut() {
                if ob.oti.as_ref().unwrap().scheme == Scheme::Raptor {
                    ob.cenc = 0;
                }
                if o.carousel {
                    ob.carousel = Some(CarouselSpec::DelayMs(10));
                    ob.max_transfer_count = 1;
                }
            }
            SessSpec { sender, objs, fdt_repeats, advance_every, carousel_cycles: if o.carousel { 2 } else { 0 } }
        })
        .boxed()
}

/// sample one value of a strategy from a deterministic seed (used by enumerated parts to pick
/// their sessions through proptest's generators)
pub fn sample<T: std::fmt::Debug>(s: &BoxedStrategy<T>, seed: u64) -> T {
    use proptest::strategy::ValueTree;
    use proptest::test_runner::{Config, RngAlgorithm, RngSeed, TestRunner};
    let mut runner = TestRunner::new(Config { rng_algorithm: RngAlgorithm::ChaCha, rng_seed: RngSeed::Fixed(seed), failure_persistence: None, ..Config::default() });
    s.new_tree(&mut runner).expect("strategy produces a value").current()
}
