//! Monitoring ObjectWriterBuilder / ObjectWriter: records every callback per writer instance,
//! runs the C09 typestate automaton online, captures the written bytes, and can inject faults
//! (builder answers, failing open, failing n-th write).

use flute::core::UDPEndpoint;
use flute::receiver::writer::{ObjectMetadata, ObjectWriter, ObjectWriterBuilder, ObjectWriterBuilderResult};
use serde::{Deserialize, Serialize};
use std::cell::RefCell;
use std::rc::Rc;
use std::time::SystemTime;

#[derive(Debug, Clone, Copy, PartialEq, Eq, Serialize, Deserialize)]
pub enum BuilderAnswer {
    Store,
    AlreadyReceived,
    Abort,
}

#[derive(Debug, Clone, PartialEq, Eq, Serialize, Deserialize)]
pub struct Faults {
    /// answer of the builder for the n-th new_object_writer call (by call index); default Store
    pub answers: Vec<BuilderAnswer>,
    /// writer instances (by creation index) whose open() fails
    pub fail_open: Vec<usize>,
    /// (writer instance, write call index) that fails
    pub fail_write: Vec<(usize, usize)>,
}

impl Faults {
    pub fn none() -> Faults {
        Faults { answers: vec![], fail_open: vec![], fail_write: vec![] }
    }
    pub fn any(&self) -> bool {
        self.answers.iter().any(|a| *a != BuilderAnswer::Store) || !self.fail_open.is_empty() || !self.fail_write.is_empty()
    }
}

#[derive(Debug, Clone, PartialEq, Eq)]
pub enum Call {
    Open(bool),
    Write(usize, bool),
    Complete,
    Error,
    Interrupted,
}

#[derive(Debug, Clone, Copy, PartialEq, Eq)]
pub enum WState {
    Created,
    Opened,
    OpenFailed,
    Terminal,
}

#[derive(Debug, Clone)]
pub struct WriterLog {
    pub idx: usize,
    pub endpoint: UDPEndpoint,
    pub tsi: u64,
    pub toi: u128,
    pub meta: ObjectMetadata,
    pub calls: Vec<Call>,
    /// concatenation of the writes that returned Ok
    pub data: Vec<u8>,
    pub state: WState,
    pub terminal: Option<Call>,
    pub md5_check: bool,
}

impl WriterLog {
    pub fn completed(&self) -> bool {
        self.terminal == Some(Call::Complete)
    }
    pub fn failed(&self) -> bool {
        matches!(self.terminal, Some(Call::Error) | Some(Call::Interrupted))
    }
    pub fn trace(&self) -> String {
        let mut s = String::from("new");
        let mut writes = 0usize;
        let mut wbytes = 0usize;
        let flush = |s: &mut String, writes: &mut usize, wbytes: &mut usize| {
            if *writes > 0 {
                s.push_str(&format!(", write x{} ({} bytes)", writes, wbytes));
                *writes = 0;
                *wbytes = 0;
            }
        };
        for c in &self.calls {
            match c {
                Call::Write(n, true) => {
                    writes += 1;
                    wbytes += n;
                }
                other => {
                    flush(&mut s, &mut writes, &mut wbytes);
                    s.push_str(&match other {
                        Call::Open(ok) => format!(", open({})", if *ok { "Ok" } else { "Err" }),
                        Call::Write(n, _) => format!(", write({} bytes -> Err)", n),
                        Call::Complete => ", complete".to_string(),
                        Call::Error => ", error".to_string(),
                        Call::Interrupted => ", interrupted".to_string(),
                    });
                }
            }
        }
        flush(&mut s, &mut writes, &mut wbytes);
        s
    }
}

#[derive(Debug, Clone)]
pub struct FdtSeen {
    pub endpoint: UDPEndpoint,
    pub tsi: u64,
    pub xml: String,
    pub expires: SystemTime,
    pub now: SystemTime,
    pub ext_time: Option<SystemTime>,
}

#[derive(Debug, Default)]
pub struct MonState {
    pub writers: Vec<WriterLog>,
    pub builder_calls: usize,
    pub protocol_errors: Vec<String>,
    pub fdts: Vec<FdtSeen>,
    pub cache_updates: usize,
    /// order of terminal events (writer idx)
    pub terminal_order: Vec<usize>,
}

pub struct Monitor {
    pub st: Rc<RefCell<MonState>>,
    pub md5_check: bool,
    pub faults: Faults,
    /// optional real writer behind the monitor (e.g. ObjectWriterFSBuilder): every call is
    /// forwarded and its result is what the receiver sees
    pub inner: Option<Rc<dyn ObjectWriterBuilder>>,
}

impl std::fmt::Debug for Monitor {
    fn fmt(&self, f: &mut std::fmt::Formatter<'_>) -> std::fmt::Result {
        write!(f, "Monitor")
    }
}

impl Monitor {
    pub fn new(md5_check: bool, faults: Faults) -> Rc<Monitor> {
        Rc::new(Monitor { st: Rc::new(RefCell::new(MonState::default())), md5_check, faults, inner: None })
    }
    pub fn with_inner(md5_check: bool, faults: Faults, inner: Rc<dyn ObjectWriterBuilder>) -> Rc<Monitor> {
        Rc::new(Monitor { st: Rc::new(RefCell::new(MonState::default())), md5_check, faults, inner: Some(inner) })
    }
    pub fn writers(&self) -> Vec<WriterLog> {
        self.st.borrow().writers.clone()
    }
    pub fn protocol_errors(&self) -> Vec<String> {
        self.st.borrow().protocol_errors.clone()
    }
    pub fn fdts(&self) -> Vec<FdtSeen> {
        self.st.borrow().fdts.clone()
    }
}

struct MonWriter {
    inner: Option<Box<dyn ObjectWriter>>,
    st: Rc<RefCell<MonState>>,
    idx: usize,
    md5_check: bool,
    fail_open: bool,
    fail_writes: Vec<usize>,
    writes_seen: RefCell<usize>,
}

impl MonWriter {
    fn with<R>(&self, f: impl FnOnce(&mut WriterLog, &mut Vec<String>, &mut Vec<usize>) -> R) -> R {
        let _p = crate::alloc::pause();
        let mut st = self.st.borrow_mut();
        let st = &mut *st;
        let w = &mut st.writers[self.idx];
        f(w, &mut st.protocol_errors, &mut st.terminal_order)
    }
}

impl ObjectWriter for MonWriter {
    fn open(&self, now: SystemTime) -> flute::error::Result<()> {
        let inner_ok = match (&self.inner, self.fail_open) {
            (Some(w), false) => w.open(now).is_ok(),
            _ => true,
        };
        let ok = !self.fail_open && inner_ok;
        self.with(|w, errs, _| {
            if w.state != WState::Created {
                errs.push(format!("writer #{} toi={}: open called in state {:?} ({})", w.idx, w.toi, w.state, w.trace()));
            }
            w.calls.push(Call::Open(ok));
            if w.state == WState::Created {
                w.state = if ok { WState::Opened } else { WState::OpenFailed };
            }
        });
        if ok {
            Ok(())
        } else {
            Err(flute::error::FluteError(std::io::Error::new(std::io::ErrorKind::Other, "injected open failure")))
        }
    }

    fn write(&self, sbn: u32, data: &[u8], now: SystemTime) -> flute::error::Result<()> {
        let n = {
            let mut c = self.writes_seen.borrow_mut();
            let n = *c;
            *c += 1;
            n
        };
        let injected = self.fail_writes.contains(&n);
        let inner_ok = match (&self.inner, injected) {
            (Some(w), false) => w.write(sbn, data, now).is_ok(),
            _ => true,
        };
        let ok = !injected && inner_ok;
        self.with(|w, errs, _| {
            if w.state != WState::Opened {
                errs.push(format!(
                    "writer #{} toi={}: write of {} bytes in state {:?} ({})",
                    w.idx,
                    w.toi,
                    data.len(),
                    w.state,
                    w.trace()
                ));
            }
            w.calls.push(Call::Write(data.len(), ok));
            if ok {
                w.data.extend_from_slice(data);
            }
        });
        if ok {
            Ok(())
        } else {
            Err(flute::error::FluteError(std::io::Error::new(std::io::ErrorKind::Other, "injected write failure")))
        }
    }

    fn complete(&self, now: SystemTime) {
        if let Some(w) = &self.inner {
            w.complete(now)
        }
        self.terminal(Call::Complete)
    }
    fn error(&self, now: SystemTime) {
        if let Some(w) = &self.inner {
            w.error(now)
        }
        self.terminal(Call::Error)
    }
    fn interrupted(&self, now: SystemTime) {
        if let Some(w) = &self.inner {
            w.interrupted(now)
        }
        self.terminal(Call::Interrupted)
    }
    fn enable_md5_check(&self) -> bool {
        self.md5_check
    }
}

impl MonWriter {
    fn terminal(&self, c: Call) {
        self.with(|w, errs, order| {
            match w.state {
                WState::Opened => {}
                WState::OpenFailed => {
                    // the object failed because open failed; reporting that failure through
                    // error()/interrupted() is within "at most one terminal call"; complete is not
                    if c == Call::Complete {
                        errs.push(format!(
                            "writer #{} toi={}: complete after a failed open ({}, complete)",
                            w.idx,
                            w.toi,
                            w.trace()
                        ));
                    }
                }
                WState::Created => errs.push(format!(
                    "writer #{} toi={}: {:?} before open ({})",
                    w.idx,
                    w.toi,
                    c,
                    w.trace()
                )),
                WState::Terminal => errs.push(format!(
                    "writer #{} toi={}: {:?} after the terminal call ({})",
                    w.idx,
                    w.toi,
                    c,
                    w.trace()
                )),
            }
            w.calls.push(c.clone());
            if w.state != WState::Terminal {
                w.terminal = Some(c);
                order.push(w.idx);
            }
            w.state = WState::Terminal;
        });
    }
}

impl ObjectWriterBuilder for Monitor {
    fn new_object_writer(
        &self,
        endpoint: &UDPEndpoint,
        tsi: &u64,
        toi: &u128,
        meta: &ObjectMetadata,
        now: SystemTime,
    ) -> ObjectWriterBuilderResult {
        let call = {
            let mut st = self.st.borrow_mut();
            let c = st.builder_calls;
            st.builder_calls += 1;
            c
        };
        match self.faults.answers.get(call).copied().unwrap_or(BuilderAnswer::Store) {
            BuilderAnswer::AlreadyReceived => return ObjectWriterBuilderResult::ObjectAlreadyReceived,
            BuilderAnswer::Abort => return ObjectWriterBuilderResult::Abort,
            BuilderAnswer::Store => {}
        }
        let inner = match &self.inner {
            Some(b) => match b.new_object_writer(endpoint, tsi, toi, meta, now) {
                ObjectWriterBuilderResult::StoreObject(w) => Some(w),
                other => return other,
            },
            None => None,
        };
        let idx = {
            // the harness' own records are not part of the receiver's heap
            let _p = crate::alloc::pause();
            let mut st = self.st.borrow_mut();
            let idx = st.writers.len();
            st.writers.push(WriterLog {
                idx,
                endpoint: endpoint.clone(),
                tsi: *tsi,
                toi: *toi,
                meta: meta.clone(),
                calls: vec![],
                data: vec![],
                state: WState::Created,
                terminal: None,
                md5_check: self.md5_check,
            });
            idx
        };
        ObjectWriterBuilderResult::StoreObject(Box::new(MonWriter {
            inner,
            st: self.st.clone(),
            idx,
            md5_check: self.md5_check,
            fail_open: self.faults.fail_open.contains(&idx),
            fail_writes: self.faults.fail_write.iter().filter(|(w, _)| *w == idx).map(|(_, n)| *n).collect(),
            writes_seen: RefCell::new(0),
        }))
    }

    fn update_cache_control(&self, _e: &UDPEndpoint, _tsi: &u64, _toi: &u128, _meta: &ObjectMetadata, _now: SystemTime) {
        self.st.borrow_mut().cache_updates += 1;
    }

    fn fdt_received(
        &self,
        endpoint: &UDPEndpoint,
        tsi: &u64,
        fdt_xml: &str,
        expires: SystemTime,
        _meta: &ObjectMetadata,
        _transfer_duration: std::time::Duration,
        now: SystemTime,
        ext_time: Option<SystemTime>,
    ) {
        let _p = crate::alloc::pause();
        self.st.borrow_mut().fdts.push(FdtSeen {
            endpoint: endpoint.clone(),
            tsi: *tsi,
            xml: fdt_xml.to_string(),
            expires,
            now,
            ext_time,
        });
    }
}

/// C09 end-of-history check: after the receiver has been dropped every writer whose open
/// succeeded has received its terminal call.
pub fn check_all_terminated(st: &MonState) -> Vec<String> {
    let mut v = vec![];
    for w in &st.writers {
        if w.state == WState::Opened {
            v.push(format!(
                "writer #{} toi={} was opened but never received complete/error/interrupted although the receiver was dropped ({})",
                w.idx,
                w.toi,
                w.trace()
            ));
        }
        if w.state == WState::Created {
            // a writer that was never opened: the property says "open exactly once before anything else";
            // a writer handed out and never touched at all is tolerated only if nothing else was called
            if !w.calls.is_empty() {
                v.push(format!("writer #{} toi={} has calls but no open ({})", w.idx, w.toi, w.trace()));
            }
        }
    }
    v
}
