//! Output discipline: flute prints from library code (`println!` in ObjectWriterFS::complete),
//! so the harness moves the real stdout away at start-up and writes its own report lines
//! through the saved descriptor.  fd 1 is pointed at /dev/null for the rest of the process.

use std::io::Write;
use std::os::unix::io::FromRawFd;
use std::sync::Mutex;
use std::sync::OnceLock;

static REAL: OnceLock<Mutex<std::fs::File>> = OnceLock::new();
pub static REAL_FD: std::sync::atomic::AtomicI32 = std::sync::atomic::AtomicI32::new(1);

pub fn init() {
    REAL.get_or_init(|| unsafe {
        let saved = libc::dup(1);
        let devnull = libc::open(b"/dev/null\0".as_ptr() as *const libc::c_char, libc::O_WRONLY);
        if saved >= 0 && devnull >= 0 {
            libc::dup2(devnull, 1);
            libc::close(devnull);
            REAL_FD.store(saved, std::sync::atomic::Ordering::SeqCst);
            Mutex::new(std::fs::File::from_raw_fd(saved))
        } else {
            Mutex::new(std::fs::File::from_raw_fd(2))
        }
    });
}

pub fn line(s: &str) {
    init();
    let mut f = REAL.get().unwrap().lock().unwrap_or_else(|e| e.into_inner());
    let _ = writeln!(f, "{}", s);
    let _ = f.flush();
}

#[macro_export]
macro_rules! say {
    ($($arg:tt)*) => { $crate::out::line(&format!($($arg)*)) };
}
