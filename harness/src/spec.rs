//! Serializable descriptions of everything a case is made of (so that a case is a plain value:
//! it can be generated, shrunk, written to a replay file and re-run without proptest).

use crate::rfc::fti::Scheme;
use flute::core::lct::Cenc;
use flute::core::Oti;
use flute::sender::{
    CacheControl, CarouselRepeatMode, Config, FDTPublishMode, ObjectDesc, PriorityQueue, Profile, TOIMaxLength,
    TargetAcquisition, TransferConfig,
};
use serde::{Deserialize, Serialize};
use std::io::{Read, Seek, SeekFrom};
use std::time::{Duration, SystemTime, UNIX_EPOCH};

/// virtual "now" of every session: 2023-11-14T22:13:20Z, well inside NTP era 0
pub const T0_SECS: u64 = 1_700_000_000;

pub fn t0() -> SystemTime {
    UNIX_EPOCH + Duration::from_secs(T0_SECS)
}

pub fn at_ms(ms: i64) -> SystemTime {
    if ms >= 0 {
        t0() + Duration::from_millis(ms as u64)
    } else {
        t0() - Duration::from_millis((-ms) as u64)
    }
}

pub fn at_us(us: i64) -> SystemTime {
    if us >= 0 {
        t0() + Duration::from_micros(us as u64)
    } else {
        t0() - Duration::from_micros((-us) as u64)
    }
}

// ------------------------------------------------------------------------------------------
// u128 values travel as decimal strings in JSON (serde_json's Value cannot hold them)

pub mod u128s {
    use serde::{Deserialize, Deserializer, Serializer};
    pub fn serialize<S: Serializer>(v: &u128, s: S) -> Result<S::Ok, S::Error> {
        s.serialize_str(&v.to_string())
    }
    pub fn deserialize<'de, D: Deserializer<'de>>(d: D) -> Result<u128, D::Error> {
        let s = String::deserialize(d)?;
        s.parse::<u128>().map_err(serde::de::Error::custom)
    }
}

pub mod opt_u128s {
    use serde::{Deserialize, Deserializer, Serializer};
    pub fn serialize<S: Serializer>(v: &Option<u128>, s: S) -> Result<S::Ok, S::Error> {
        match v {
            Some(v) => s.serialize_some(&v.to_string()),
            None => s.serialize_none(),
        }
    }
    pub fn deserialize<'de, D: Deserializer<'de>>(d: D) -> Result<Option<u128>, D::Error> {
        let s = Option::<String>::deserialize(d)?;
        match s {
            Some(s) => s.parse::<u128>().map(Some).map_err(serde::de::Error::custom),
            None => Ok(None),
        }
    }
}

#[derive(Debug, Clone, PartialEq, Eq, Serialize, Deserialize)]
pub struct OtiSpec {
    pub scheme: Scheme,
    pub e: u16,
    pub b: u32,
    pub parity: u32,
    pub inband_fti: bool,
    /// RaptorQ / Raptor symbol alignment
    pub al: u8,
    /// RaptorQ / Raptor number of sub-blocks
    pub nsub: u16,
}

impl OtiSpec {
    pub fn nocode(e: u16, b: u32) -> Self {
        OtiSpec { scheme: Scheme::NoCode, e, b, parity: 0, inband_fti: true, al: 1, nsub: 1 }
    }
    pub fn to_oti(&self) -> Result<Oti, String> {
        let mut oti = match self.scheme {
            Scheme::NoCode => {
                let mut o = Oti::new_no_code(self.e, self.b.min(u16::MAX as u32) as u16);
                o.maximum_source_block_length = self.b;
                o
            }
            Scheme::Rs28 => Oti::new_reed_solomon_rs28(self.e, self.b as u8, self.parity as u8)
                .map_err(|e| format!("{:?}", e.0.to_string()))?,
            Scheme::Rs28Us => Oti::new_reed_solomon_rs28_under_specified(self.e, self.b as u16, self.parity as u16)
                .map_err(|e| format!("{:?}", e.0.to_string()))?,
            Scheme::RaptorQ => Oti::new_raptorq(self.e, self.b as u16, self.parity as u16, self.nsub, self.al)
                .map_err(|e| format!("{:?}", e.0.to_string()))?,
            Scheme::Raptor => Oti::new_raptor(self.e, self.b as u16, self.parity as u16, self.nsub as u8, self.al)
                .map_err(|e| format!("{:?}", e.0.to_string()))?,
            Scheme::Rs2m => return Err("RS GF(2^m) is not implemented by flute's sender".into()),
        };
        oti.inband_fti = self.inband_fti;
        Ok(oti)
    }
    /// the scheme's hard limits on (E, B, parity) as documented by the constructors
    pub fn is_constructible(&self) -> bool {
        if self.e == 0 || self.b == 0 {
            return false;
        }
        match self.scheme {
            Scheme::NoCode => self.b <= u16::MAX as u32 && self.parity == 0,
            Scheme::Rs28 => self.b + self.parity <= 255,
            Scheme::Rs28Us => self.b + self.parity <= 255, // GF(2^8): k + parity <= 255
            Scheme::RaptorQ => self.al >= 1 && self.e % self.al as u16 == 0 && self.b <= 56403 && self.nsub >= 1,
            Scheme::Raptor => self.al >= 1 && self.e % self.al as u16 == 0 && self.b <= 8192 && self.nsub >= 1,
            Scheme::Rs2m => false,
        }
    }
    /// maximum number of source blocks the scheme's payload id / FTI can address
    pub fn max_blocks(&self) -> u128 {
        match self.scheme {
            Scheme::NoCode => 65535,
            Scheme::Rs28 => 255,
            Scheme::Rs28Us => u32::MAX as u128,
            Scheme::RaptorQ => 255,
            Scheme::Raptor => 65535,
            Scheme::Rs2m => 0,
        }
    }
}

#[derive(Debug, Clone, PartialEq, Eq, Serialize, Deserialize)]
pub enum ContentKind {
    Random,
    /// low-entropy text, compresses well
    Text,
    Zeros,
}

#[derive(Debug, Clone, PartialEq, Eq, Serialize, Deserialize)]
pub struct ContentSpec {
    pub size: usize,
    pub kind: ContentKind,
    pub seed: u64,
}

impl ContentSpec {
    pub fn bytes(&self) -> Vec<u8> {
        let mut s = self.seed ^ 0x9E3779B97F4A7C15;
        let mut next = move || {
            s ^= s << 13;
            s ^= s >> 7;
            s ^= s << 17;
            s
        };
        match self.kind {
            ContentKind::Zeros => vec![0; self.size],
            ContentKind::Random => (0..self.size).map(|_| (next() >> 24) as u8).collect(),
            ContentKind::Text => {
                const W: [&str; 8] = ["flute ", "alc ", "lct ", "fdt ", "toi ", "tsi ", "block ", "symbol "];
                let mut v = Vec::with_capacity(self.size + 8);
                while v.len() < self.size {
                    v.extend_from_slice(W[(next() >> 40) as usize % 8].as_bytes());
                }
                v.truncate(self.size);
                v
            }
        }
    }
}

#[derive(Debug, Clone, Copy, PartialEq, Eq, Serialize, Deserialize)]
pub enum CarouselSpec {
    DelayMs(u64),
    IntervalMs(u64),
}

impl CarouselSpec {
    pub fn to_mode(&self) -> CarouselRepeatMode {
        match self {
            CarouselSpec::DelayMs(ms) => CarouselRepeatMode::DelayBetweenTransfers(Duration::from_millis(*ms)),
            CarouselSpec::IntervalMs(ms) => CarouselRepeatMode::IntervalBetweenStartTimes(Duration::from_millis(*ms)),
        }
    }
}

#[derive(Debug, Clone, Copy, PartialEq, Eq, Serialize, Deserialize)]
pub enum CacheSpec {
    NoCache,
    MaxStale,
    ExpiresSecs(u64),
    /// offset from T0 in seconds
    ExpiresAtOffsetSecs(i64),
}

impl CacheSpec {
    pub fn to_cc(&self) -> CacheControl {
        match self {
            CacheSpec::NoCache => CacheControl::NoCache,
            CacheSpec::MaxStale => CacheControl::MaxStale,
            CacheSpec::ExpiresSecs(s) => CacheControl::Expires(Duration::from_secs(*s)),
            CacheSpec::ExpiresAtOffsetSecs(s) => CacheControl::ExpiresAt(at_ms(*s * 1000)),
        }
    }
}

#[derive(Debug, Clone, Copy, PartialEq, Eq, Serialize, Deserialize)]
pub enum TargetSpec {
    Fast,
    WithinUs(u64),
    /// absolute: offset from T0 in microseconds
    AtOffsetUs(i64),
}

impl TargetSpec {
    pub fn to_target(&self) -> TargetAcquisition {
        match self {
            TargetSpec::Fast => TargetAcquisition::AsFastAsPossible,
            TargetSpec::WithinUs(us) => TargetAcquisition::WithinDuration(Duration::from_micros(*us)),
            TargetSpec::AtOffsetUs(us) => TargetAcquisition::WithinTime(at_us(*us)),
        }
    }
}

#[derive(Debug, Clone, PartialEq, Eq, Serialize, Deserialize)]
pub enum SourceSpec {
    Buffer,
    /// create_from_file(cache_in_ram = true)
    FileCached,
    /// create_from_file(cache_in_ram = false): std::fs::File as a stream
    FileStream,
    /// std::io::Cursor<Vec<u8>>
    Cursor,
    /// BufReader<File> with the given capacity
    BufReaderFile(usize),
    /// harness stream: every read returns at most the next entry of `chunks` bytes (cycled)
    Chunked(Vec<usize>),
}

#[derive(Debug, Clone, PartialEq, Eq, Serialize, Deserialize)]
pub struct ObjSpec {
    pub content: ContentSpec,
    pub content_type: String,
    pub location: String,
    pub md5: bool,
    pub cenc: u8,
    pub inband_cenc: bool,
    pub oti: Option<OtiSpec>,
    pub max_transfer_count: u32,
    pub carousel: Option<CarouselSpec>,
    pub cache: Option<CacheSpec>,
    pub groups: Option<Vec<String>>,
    pub etag: Option<String>,
    pub start_offset_ms: Option<i64>,
    pub target: Option<TargetSpec>,
    pub priority: u32,
    pub immediate_stop: Option<bool>,
    pub source: SourceSpec,
    pub reserve_toi: bool,
    /// stream sources only: where the cursor of the stream stands when it is handed to flute (mapped
    /// monotonically onto 0..=len); the object is the whole stream whatever this is
    #[serde(default)]
    pub stream_start: u16,
}

impl ObjSpec {
    pub fn simple(size: usize, seed: u64) -> ObjSpec {
        ObjSpec {
            content: ContentSpec { size, kind: ContentKind::Random, seed },
            content_type: "application/octet-stream".into(),
            location: format!("file:///obj{}", seed),
            md5: true,
            stream_start: 0,
            cenc: 0,
            inband_cenc: false,
            oti: None,
            max_transfer_count: 1,
            carousel: None,
            cache: None,
            groups: None,
            etag: None,
            start_offset_ms: None,
            target: None,
            priority: 0,
            immediate_stop: None,
            source: SourceSpec::Buffer,
            reserve_toi: false,
        }
    }
}

pub fn cenc_of(v: u8) -> Cenc {
    match v {
        1 => Cenc::Zlib,
        2 => Cenc::Deflate,
        3 => Cenc::Gzip,
        _ => Cenc::Null,
    }
}

#[derive(Debug)]
pub struct ChunkedStream {
    pub data: Vec<u8>,
    pub pos: usize,
    pub chunks: Vec<usize>,
    pub idx: usize,
    pub log: std::sync::Arc<std::sync::Mutex<Vec<StreamOp>>>,
}

#[derive(Debug, Clone, PartialEq, Eq)]
pub enum StreamOp {
    Read { pos: usize, asked: usize, got: usize },
    Seek { to: u64 },
}

impl Read for ChunkedStream {
    fn read(&mut self, buf: &mut [u8]) -> std::io::Result<usize> {
        let c = if self.chunks.is_empty() { usize::MAX } else { self.chunks[self.idx % self.chunks.len()].max(1) };
        self.idx += 1;
        let n = buf.len().min(c).min(self.data.len().saturating_sub(self.pos));
        buf[..n].copy_from_slice(&self.data[self.pos..self.pos + n]);
        self.log.lock().unwrap().push(StreamOp::Read { pos: self.pos, asked: buf.len(), got: n });
        self.pos += n;
        Ok(n)
    }
}

impl Seek for ChunkedStream {
    fn seek(&mut self, pos: SeekFrom) -> std::io::Result<u64> {
        let np: i128 = match pos {
            SeekFrom::Start(p) => p as i128,
            SeekFrom::End(d) => self.data.len() as i128 + d as i128,
            SeekFrom::Current(d) => self.pos as i128 + d as i128,
        };
        if np < 0 {
            return Err(std::io::Error::new(std::io::ErrorKind::InvalidInput, "negative seek"));
        }
        self.pos = np as usize;
        self.log.lock().unwrap().push(StreamOp::Seek { to: np as u64 });
        Ok(np as u64)
    }
}

pub struct BuiltObject {
    pub desc: Box<ObjectDesc>,
    /// the object's content as handed to flute
    pub bytes: Vec<u8>,
    pub stream_log: Option<std::sync::Arc<std::sync::Mutex<Vec<StreamOp>>>>,
    pub tmp: Option<tempfile::TempDir>,
}

impl ObjSpec {
    pub fn transfer_config(&self) -> Result<TransferConfig, String> {
        Ok(TransferConfig {
            max_transfer_count: self.max_transfer_count,
            carousel_mode: self.carousel.map(|c| c.to_mode()),
            target_acquisition: self.target.map(|t| t.to_target()),
            cache_control: self.cache.map(|c| c.to_cc()),
            groups: self.groups.clone(),
            cenc: cenc_of(self.cenc),
            inband_cenc: self.inband_cenc,
            oti: match &self.oti {
                Some(o) => Some(o.to_oti()?),
                None => None,
            },
            transfer_start_time: self.start_offset_ms.map(at_ms),
            toi: None,
            optel_propagator: None,
            e_tag: self.etag.clone(),
            allow_immediate_stop_before_first_transfer: self.immediate_stop,
        })
    }

    pub fn build(&self) -> Result<BuiltObject, String> {
        let bytes = self.content.bytes();
        let url = url::Url::parse(&self.location).map_err(|e| format!("location {:?}: {}", self.location, e))?;
        let cfg = self.transfer_config()?;
        let mut tmp = None;
        let mut stream_log = None;
        let err = |e: flute::error::FluteError| format!("create object: {}", e.0);
        let desc = match &self.source {
            SourceSpec::Buffer => {
                ObjectDesc::create_from_buffer(bytes.clone(), &self.content_type, &url, self.md5, cfg).map_err(err)?
            }
            SourceSpec::FileCached | SourceSpec::FileStream => {
                let dir = tempfile::tempdir().map_err(|e| e.to_string())?;
                let p = dir.path().join("src.bin");
                std::fs::write(&p, &bytes).map_err(|e| e.to_string())?;
                let d = ObjectDesc::create_from_file(
                    &p,
                    Some(&url),
                    &self.content_type,
                    self.source == SourceSpec::FileCached,
                    self.md5,
                    cfg,
                )
                .map_err(err)?;
                tmp = Some(dir);
                d
            }
            SourceSpec::Cursor => ObjectDesc::create_from_stream(
                Box::new({
                    let mut c = std::io::Cursor::new(bytes.clone());
                    c.set_position((((self.stream_start as usize) * (bytes.len() + 1)) >> 16) as u64);
                    c
                }),
                &self.content_type,
                &url,
                self.md5,
                cfg,
            )
            .map_err(err)?,
            SourceSpec::BufReaderFile(cap) => {
                let dir = tempfile::tempdir().map_err(|e| e.to_string())?;
                let p = dir.path().join("src.bin");
                std::fs::write(&p, &bytes).map_err(|e| e.to_string())?;
                let f = std::fs::File::open(&p).map_err(|e| e.to_string())?;
                let d = ObjectDesc::create_from_stream(
                    Box::new(std::io::BufReader::with_capacity((*cap).max(1), f)),
                    &self.content_type,
                    &url,
                    self.md5,
                    cfg,
                )
                .map_err(err)?;
                tmp = Some(dir);
                d
            }
            SourceSpec::Chunked(chunks) => {
                let log = std::sync::Arc::new(std::sync::Mutex::new(vec![]));
                stream_log = Some(log.clone());
                ObjectDesc::create_from_stream(
                    Box::new(ChunkedStream { data: bytes.clone(), pos: ((self.stream_start as usize) * (bytes.len() + 1)) >> 16, chunks: chunks.clone(), idx: 0, log }),
                    &self.content_type,
                    &url,
                    self.md5,
                    cfg,
                )
                .map_err(err)?
            }
        };
        Ok(BuiltObject { desc, bytes, stream_log, tmp })
    }

    pub fn is_stream(&self) -> bool {
        !matches!(self.source, SourceSpec::Buffer | SourceSpec::FileCached)
    }
}

#[derive(Debug, Clone, PartialEq, Eq, Serialize, Deserialize)]
pub struct SenderSpec {
    pub tsi: u64,
    pub oti: OtiSpec,
    pub fdt_cenc: u8,
    pub full_fdt: bool,
    pub rfc3926: bool,
    pub fdt_start_id: u32,
    pub fdt_duration_s: u64,
    pub fdt_carousel: CarouselSpec,
    pub inband_sct: bool,
    pub interleave: u8,
    /// (priority key, multiplex_files)
    pub queues: Vec<(u32, u32)>,
    /// 16, 32, 48, 64, 80, 112
    pub toi_width: u8,
    #[serde(with = "opt_u128s")]
    pub toi_initial: Option<u128>,
    pub groups: Option<Vec<String>>,
}

impl SenderSpec {
    pub fn simple(oti: OtiSpec) -> SenderSpec {
        SenderSpec {
            tsi: 1,
            oti,
            fdt_cenc: 0,
            full_fdt: true,
            rfc3926: false,
            fdt_start_id: 1,
            fdt_duration_s: 3600,
            fdt_carousel: CarouselSpec::DelayMs(1000),
            inband_sct: true,
            interleave: 1,
            queues: vec![(0, 1)],
            toi_width: 112,
            toi_initial: Some(1),
            groups: None,
        }
    }

    pub fn toi_max(&self) -> TOIMaxLength {
        match self.toi_width {
            16 => TOIMaxLength::ToiMax16,
            32 => TOIMaxLength::ToiMax32,
            48 => TOIMaxLength::ToiMax48,
            64 => TOIMaxLength::ToiMax64,
            80 => TOIMaxLength::ToiMax80,
            _ => TOIMaxLength::ToiMax112,
        }
    }

    pub fn config(&self) -> Config {
        let mut c = Config {
            fdt_duration: Duration::from_secs(self.fdt_duration_s),
            fdt_carousel_mode: self.fdt_carousel.to_mode(),
            fdt_start_id: self.fdt_start_id,
            fdt_cenc: cenc_of(self.fdt_cenc),
            fdt_inband_sct: self.inband_sct,
            fdt_publish_mode: if self.full_fdt { FDTPublishMode::FullFDT } else { FDTPublishMode::ObjectsBeingTransferred },
            priority_queues: std::collections::BTreeMap::new(),
            interleave_blocks: self.interleave,
            profile: if self.rfc3926 { Profile::RFC3926 } else { Profile::RFC6726 },
            toi_max_length: self.toi_max(),
            toi_initial_value: self.toi_initial,
            groups: self.groups.clone(),
        };
        for (p, m) in &self.queues {
            c.set_priority_queue(*p, PriorityQueue::new(*m));
        }
        c
    }

    pub fn endpoint(&self) -> flute::core::UDPEndpoint {
        flute::core::UDPEndpoint::new(None, "224.0.0.1".to_string(), 3400)
    }

    pub fn build(&self) -> Result<flute::sender::Sender, String> {
        let oti = self.oti.to_oti()?;
        Ok(flute::sender::Sender::new(self.endpoint(), self.tsi, &oti, &self.config()))
    }
}
