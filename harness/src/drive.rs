//! Drivers: sender under a virtual clock with a recording subscriber, receiver with the
//! monitoring writer.

use crate::monitor::{Faults, Monitor};
use crate::rfc::pkt::{self, Dec};
use crate::spec::*;
use flute::core::UDPEndpoint;
use flute::receiver::MultiReceiver;
use flute::sender::{Event, Sender, Subscriber};
use std::rc::Rc;
use std::sync::{Arc, Mutex};
use std::time::{Duration, SystemTime};

#[derive(Debug, Clone)]
pub enum RecKind {
    Pkt { bytes: Vec<u8>, dec: Result<Dec, String> },
    Start(u128),
    Stop(u128),
    /// harness operation marker
    Op(String),
}

#[derive(Debug, Clone)]
pub struct Rec {
    pub t: SystemTime,
    pub kind: RecKind,
}

impl Rec {
    pub fn pkt(&self) -> Option<(&Vec<u8>, &Dec)> {
        match &self.kind {
            RecKind::Pkt { bytes, dec: Ok(d) } => Some((bytes, d)),
            _ => None,
        }
    }
}

/// human-readable dump of a sender log (VERIF_TRACE=1 on replay)
pub fn dump(log: &[Rec]) -> String {
    let mut o = String::new();
    for (i, r) in log.iter().enumerate() {
        let t = r.t.duration_since(t0()).map(|d| d.as_micros() as i128).unwrap_or_else(|e| -(e.duration().as_micros() as i128));
        match &r.kind {
            RecKind::Pkt { bytes, dec: Ok(d) } => o.push_str(&format!(
                "#{:<4} t={:>10}us PKT toi={} {}sbn={} esi={} len={} B={} A={} fti={} cenc={:?} bytes={}\n",
                i,
                t,
                d.lct.toi,
                d.fdt.map(|f| format!("fdt-id={} ", f.1)).unwrap_or_default(),
                d.pid.sbn,
                d.pid.esi,
                d.payload.len(),
                d.lct.close_object as u8,
                d.lct.close_session as u8,
                d.fti.is_some(),
                d.cenc,
                bytes.len()
            )),
            RecKind::Pkt { dec: Err(e), .. } => o.push_str(&format!("#{:<4} t={:>10}us PKT undecodable: {}\n", i, t, e)),
            RecKind::Start(toi) => o.push_str(&format!("#{:<4} t={:>10}us START toi={}\n", i, t, toi)),
            RecKind::Stop(toi) => o.push_str(&format!("#{:<4} t={:>10}us STOP  toi={}\n", i, t, toi)),
            RecKind::Op(s) => o.push_str(&format!("#{:<4} t={:>10}us OP    {}\n", i, t, s)),
        }
    }
    o
}

pub fn trace_enabled() -> bool {
    std::env::var("VERIF_TRACE").is_ok()
}

pub struct EventSink {
    pub q: Mutex<Vec<(SystemTime, Event)>>,
}

impl Subscriber for EventSink {
    fn on_sender_event(&self, evt: &Event, now: SystemTime) {
        self.q.lock().unwrap().push((now, evt.clone()));
    }
}

pub struct SenderDriver {
    pub sender: Sender,
    pub sink: Arc<EventSink>,
    pub log: Vec<Rec>,
    pub now: SystemTime,
    pub reads: u64,
    /// decode problems of emitted packets (reference decoder could not read what flute built)
    pub decode_errors: Vec<String>,
    pub keep: Vec<BuiltKeep>,
}

/// keeps temp dirs / stream logs of added objects alive
pub struct BuiltKeep {
    pub tmp: Option<tempfile::TempDir>,
    pub stream_log: Option<Arc<Mutex<Vec<StreamOp>>>>,
}

impl SenderDriver {
    pub fn new(spec: &SenderSpec) -> Result<SenderDriver, String> {
        let mut sender = spec.build()?;
        let sink = Arc::new(EventSink { q: Mutex::new(vec![]) });
        sender.subscribe(sink.clone());
        Ok(SenderDriver { sender, sink, log: vec![], now: t0(), reads: 0, decode_errors: vec![], keep: vec![] })
    }

    fn drain_events(&mut self) {
        let evs: Vec<(SystemTime, Event)> = std::mem::take(&mut *self.sink.q.lock().unwrap());
        for (t, e) in evs {
            let kind = match e {
                Event::StartTransfer(f) => RecKind::Start(f.toi),
                Event::StopTransfer(f) => RecKind::Stop(f.toi),
            };
            self.log.push(Rec { t, kind });
        }
    }

    pub fn op(&mut self, s: impl Into<String>) {
        self.log.push(Rec { t: self.now, kind: RecKind::Op(s.into()) });
    }

    /// add an object; Ok(toi) / Err(reason)
    pub fn add(&mut self, spec: &ObjSpec) -> Result<(u128, Vec<u8>), String> {
        let mut built = spec.build()?;
        if spec.reserve_toi {
            let toi = self.sender.allocate_toi();
            built.desc.set_toi(toi);
        }
        let r = self.sender.add_object(spec.priority, built.desc).map_err(|e| format!("add_object: {}", e.0));
        self.drain_events();
        match r {
            Ok(toi) => {
                self.keep.push(BuiltKeep { tmp: built.tmp, stream_log: built.stream_log });
                self.op(format!("add toi={}", toi));
                Ok((toi, built.bytes))
            }
            Err(e) => Err(e),
        }
    }

    pub fn publish(&mut self) -> Result<(), String> {
        let r = self.sender.publish(self.now).map_err(|e| format!("publish: {}", e.0));
        self.drain_events();
        self.op("publish");
        r
    }

    pub fn remove(&mut self, toi: u128) -> bool {
        let r = self.sender.remove_object(toi);
        self.drain_events();
        self.op(format!("remove toi={} -> {}", toi, r));
        r
    }

    pub fn advance(&mut self, d: Duration) {
        self.now += d;
    }

    /// one `read(now)`; returns the index of the packet record in the log
    pub fn read(&mut self) -> Option<usize> {
        self.reads += 1;
        let r = self.sender.read(self.now);
        self.drain_events();
        match r {
            Some(bytes) => {
                let dec = pkt::decode(&bytes, 0);
                if let Err(e) = &dec {
                    self.decode_errors.push(format!("packet #{}: {}", self.log.len(), e));
                }
                self.log.push(Rec { t: self.now, kind: RecKind::Pkt { bytes, dec } });
                Some(self.log.len() - 1)
            }
            None => None,
        }
    }

    /// read until `None` at the current instant; returns number of packets; `Err` if more than
    /// `bound` packets come out (non-termination guard owned by the harness)
    pub fn drain(&mut self, bound: usize) -> Result<usize, String> {
        let mut n = 0;
        while self.read().is_some() {
            n += 1;
            if n > bound {
                return Err(format!("read() returned a packet more than {} times at one fixed instant", bound));
            }
        }
        Ok(n)
    }

    /// drive until no object is left (or `max_polls` polls); the clock advances by `step` whenever
    /// read() returns None while objects remain
    pub fn run_until_empty(&mut self, step: Duration, max_polls: usize, max_pkts: usize) -> Result<(), String> {
        let mut polls = 0;
        let mut pkts = 0;
        loop {
            match self.read() {
                Some(_) => {
                    pkts += 1;
                    if pkts > max_pkts {
                        return Err(format!("more than {} packets without the session ending", max_pkts));
                    }
                }
                None => {
                    if self.sender.nb_objects() == 0 {
                        return Ok(());
                    }
                    polls += 1;
                    if polls > max_polls {
                        return Err(format!(
                            "objects still listed after {} idle polls of {:?} ({} packets so far)",
                            max_polls, step, pkts
                        ));
                    }
                    self.advance(step);
                }
            }
        }
    }

    pub fn packets(&self) -> impl Iterator<Item = (usize, &Rec)> {
        self.log.iter().enumerate().filter(|(_, r)| matches!(r.kind, RecKind::Pkt { .. }))
    }
}

// ------------------------------------------------------------------------------------------

#[derive(Debug, Clone, PartialEq, serde::Serialize, serde::Deserialize)]
pub struct RxSpec {
    pub receive_once: bool,
    pub md5_check: bool,
    pub expiry_check: bool,
    pub max_objects_error: usize,
    pub object_max_cache_size: Option<usize>,
    pub object_timeout_ms: Option<u64>,
    pub session_timeout_ms: Option<u64>,
    pub cleanup_each_push: bool,
}

impl RxSpec {
    pub fn default_once() -> RxSpec {
        RxSpec {
            receive_once: true,
            md5_check: true,
            expiry_check: true,
            max_objects_error: 0,
            object_max_cache_size: None,
            object_timeout_ms: None,
            session_timeout_ms: None,
            cleanup_each_push: true,
        }
    }
    pub fn config(&self) -> flute::receiver::Config {
        flute::receiver::Config {
            max_objects_error: self.max_objects_error,
            session_timeout: self.session_timeout_ms.map(Duration::from_millis),
            object_timeout: self.object_timeout_ms.map(Duration::from_millis),
            object_max_cache_size: self.object_max_cache_size,
            object_receive_once: self.receive_once,
            enable_fdt_expiration_check: self.expiry_check,
        }
    }
}

pub struct Rx {
    pub mr: MultiReceiver,
    pub mon: Rc<Monitor>,
    pub endpoint: UDPEndpoint,
    pub cleanup_each_push: bool,
    pub push_errors: u64,
    pub push_ok: u64,
}

impl Rx {
    pub fn new(spec: &RxSpec, faults: Faults) -> Rx {
        let mon = Monitor::new(spec.md5_check, faults);
        let mr = MultiReceiver::new(mon.clone(), Some(spec.config()), false);
        Rx {
            mr,
            mon,
            endpoint: UDPEndpoint::new(None, "224.0.0.1".to_string(), 3400),
            cleanup_each_push: spec.cleanup_each_push,
            push_errors: 0,
            push_ok: 0,
        }
    }

    pub fn with_monitor(spec: &RxSpec, mon: Rc<Monitor>) -> Rx {
        let mr = MultiReceiver::new(mon.clone(), Some(spec.config()), false);
        Rx {
            mr,
            mon,
            endpoint: UDPEndpoint::new(None, "224.0.0.1".to_string(), 3400),
            cleanup_each_push: spec.cleanup_each_push,
            push_errors: 0,
            push_ok: 0,
        }
    }

    pub fn push(&mut self, bytes: &[u8], now: SystemTime) -> bool {
        let r = self.mr.push(&self.endpoint.clone(), bytes, now);
        if self.cleanup_each_push {
            self.mr.cleanup(now);
        }
        match r {
            Ok(()) => {
                self.push_ok += 1;
                true
            }
            Err(_) => {
                self.push_errors += 1;
                false
            }
        }
    }

    pub fn push_ep(&mut self, ep: &UDPEndpoint, bytes: &[u8], now: SystemTime) -> bool {
        let r = self.mr.push(ep, bytes, now);
        if self.cleanup_each_push {
            self.mr.cleanup(now);
        }
        r.is_ok()
    }
}
