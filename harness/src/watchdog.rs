//! "Current case" publication, hang watchdog and abort attribution.
//!
//! Every worker publishes the replay document of the case it is about to run.  A watchdog
//! thread fires when one case exceeds its wall-clock bound; a SIGABRT handler fires when the
//! process aborts (allocation refused by the ceiling in alloc.rs, stack overflow, double
//! panic).  Both write the published document as the replay file.  Whether that is reported as
//! a VIOLATION (the property's statement covers termination / bounded memory) or as
//! INCONCLUSIVE (exit 2) is decided per part by the `hang_is_violation` flag.

use std::cell::Cell;
use std::collections::HashMap;
use std::sync::atomic::{AtomicBool, AtomicUsize, Ordering};
use std::sync::{Mutex, OnceLock};
use std::time::{Duration, Instant};

pub struct Slot {
    pub since: Instant,
    pub limit: Duration,
    pub doc: String,
    pub property: String,
    pub hang_is_violation: bool,
}

static SLOTS: OnceLock<Mutex<HashMap<u64, Slot>>> = OnceLock::new();
static NEXT_ID: AtomicUsize = AtomicUsize::new(1);
static STARTED: AtomicBool = AtomicBool::new(false);

thread_local! {
    static MY_ID: Cell<u64> = const { Cell::new(0) };
    // raw view of the published document for the signal handler
    static CUR_PTR: Cell<*const u8> = const { Cell::new(std::ptr::null()) };
    static CUR_LEN: Cell<usize> = const { Cell::new(0) };
    static CUR_VIOL: Cell<bool> = const { Cell::new(true) };
}

// static, NUL-terminated strings prepared at init for the signal handler
static ABORT_PATH: OnceLock<Vec<u8>> = OnceLock::new();
static ABORT_MSG_V: OnceLock<Vec<u8>> = OnceLock::new();
static ABORT_MSG_I: OnceLock<Vec<u8>> = OnceLock::new();

fn slots() -> &'static Mutex<HashMap<u64, Slot>> {
    SLOTS.get_or_init(|| Mutex::new(HashMap::new()))
}

fn my_id() -> u64 {
    MY_ID.with(|c| {
        if c.get() == 0 {
            c.set(NEXT_ID.fetch_add(1, Ordering::SeqCst) as u64);
        }
        c.get()
    })
}

extern "C" fn on_abort(_sig: libc::c_int) {
    unsafe {
        let p = CUR_PTR.try_with(|c| c.get()).unwrap_or(std::ptr::null());
        let n = CUR_LEN.try_with(|c| c.get()).unwrap_or(0);
        let viol = CUR_VIOL.try_with(|c| c.get()).unwrap_or(true);
        if let Some(path) = ABORT_PATH.get() {
            let fd = libc::open(
                path.as_ptr() as *const libc::c_char,
                libc::O_CREAT | libc::O_WRONLY | libc::O_TRUNC,
                0o644,
            );
            if fd >= 0 {
                if !p.is_null() && n > 0 {
                    let mut off = 0usize;
                    while off < n {
                        let w = libc::write(fd, p.add(off) as *const libc::c_void, n - off);
                        if w <= 0 {
                            break;
                        }
                        off += w as usize;
                    }
                } else {
                    let m = b"{\"note\":\"abort outside a published case\"}\n";
                    libc::write(fd, m.as_ptr() as *const libc::c_void, m.len());
                }
                libc::close(fd);
            }
        }
        let out = crate::out::REAL_FD.load(Ordering::SeqCst);
        let msg = if viol && !p.is_null() { ABORT_MSG_V.get() } else { ABORT_MSG_I.get() };
        if let Some(m) = msg {
            libc::write(out, m.as_ptr() as *const libc::c_void, m.len());
        }
        libc::_exit(if viol && !p.is_null() { 1 } else { 2 });
    }
}

/// start the watchdog thread and install the abort handler (idempotent)
pub fn start(property: &str, replay_dir: &str) {
    if STARTED.swap(true, Ordering::SeqCst) {
        return;
    }
    let path = format!("{}/{}-abort-{}.json", replay_dir, property, std::process::id());
    let mut p = path.clone().into_bytes();
    p.push(0);
    let _ = ABORT_PATH.set(p);
    let _ = ABORT_MSG_V.set(
        format!(
            "process aborted (allocation beyond ceiling, stack overflow or double panic) while running the published case\nVIOLATION property={} replay={}\n",
            property, path
        )
        .into_bytes(),
    );
    let _ = ABORT_MSG_I.set(
        format!(
            "INCONCLUSIVE property={} process aborted; last published case (if any) in {}\n",
            property, path
        )
        .into_bytes(),
    );
    unsafe {
        let mut sa: libc::sigaction = std::mem::zeroed();
        sa.sa_sigaction = on_abort as *const () as usize;
        sa.sa_flags = libc::SA_ONSTACK;
        libc::sigemptyset(&mut sa.sa_mask);
        libc::sigaction(libc::SIGABRT, &sa, std::ptr::null_mut());
    }
    let replay_dir = replay_dir.to_string();
    std::thread::Builder::new()
        .name("watchdog".into())
        .spawn(move || loop {
            std::thread::sleep(Duration::from_millis(200));
            let mut fire: Option<(String, String, bool, Duration)> = None;
            {
                let g = slots().lock().unwrap_or_else(|e| e.into_inner());
                for (_, s) in g.iter() {
                    if s.since.elapsed() > s.limit {
                        fire = Some((s.property.clone(), s.doc.clone(), s.hang_is_violation, s.limit));
                        break;
                    }
                }
            }
            if let Some((prop, doc, viol, limit)) = fire {
                let h = crate::engine::fnv(doc.as_bytes());
                let path = format!("{}/{}-hang-{:016x}.json", replay_dir, prop, h);
                let _ = std::fs::write(&path, &doc);
                if viol {
                    crate::say!(
                        "case exceeded its wall-clock bound of {:?} (the property's statement includes termination)",
                        limit
                    );
                    crate::say!("VIOLATION property={} replay={}", prop, path);
                    crate::engine::emergency_evidence(&prop, 1, "watchdog expiry (hang)");
                    unsafe { libc::_exit(1) };
                } else {
                    crate::say!(
                        "INCONCLUSIVE property={} a case exceeded {:?}; case saved in {}",
                        prop,
                        limit,
                        path
                    );
                    unsafe { libc::_exit(2) };
                }
            }
        })
        .expect("spawn watchdog");
}

pub struct Guard {
    id: u64,
    _doc: Box<str>,
}

/// publish the calling thread's current case; the returned guard withdraws it
pub fn publish(property: &str, doc: String, limit: Duration, hang_is_violation: bool) -> Guard {
    let id = my_id();
    let boxed: Box<str> = doc.clone().into_boxed_str();
    CUR_PTR.with(|c| c.set(boxed.as_ptr()));
    CUR_LEN.with(|c| c.set(boxed.len()));
    CUR_VIOL.with(|c| c.set(hang_is_violation));
    slots().lock().unwrap_or_else(|e| e.into_inner()).insert(
        id,
        Slot {
            since: Instant::now(),
            limit,
            doc,
            property: property.to_string(),
            hang_is_violation,
        },
    );
    Guard { id, _doc: boxed }
}

impl Drop for Guard {
    fn drop(&mut self) {
        CUR_PTR.with(|c| c.set(std::ptr::null()));
        CUR_LEN.with(|c| c.set(0));
        slots().lock().unwrap_or_else(|e| e.into_inner()).remove(&self.id);
    }
}
