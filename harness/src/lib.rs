//! flute-verif: property-based / fuzz harness deciding the properties in /verif/properties.jsonl
pub mod alloc;
pub mod chan;
pub mod corpus;
pub mod drive;
pub mod engine;
pub mod gen;
pub mod monitor;
pub mod ops;
pub mod out;
pub mod props;
pub mod rfc;
pub mod spec;
pub mod stream;
pub mod watchdog;

#[global_allocator]
static GLOBAL: alloc::Counting = alloc::Counting;
