//! flute-verif: property-based / fuzz harness deciding the properties in /verif/properties.jsonl
pub mod alloc;
pub mod drive;
pub mod engine;
pub mod monitor;
pub mod out;
pub mod props;
pub mod rfc;
pub mod spec;
pub mod watchdog;

#[global_allocator]
static GLOBAL: alloc::Counting = alloc::Counting;
