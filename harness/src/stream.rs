//! Analysis of a recorded sender log: FDT instances reassembled with the reference receiver,
//! object transfers delimited by the Subscriber's Start/Stop events, wire-level OTI per object.

use crate::drive::{Rec, RecKind};
use crate::rfc::fdt::{self, FdtDoc, FdtFile};
use crate::rfc::fti::{Fti, Scheme};
use crate::rfc::partition::{partition, Partition};
use crate::rfc::rx::{decode_content, Assembler};
use base64::Engine as _;
use std::collections::BTreeMap;

#[derive(Debug, Clone)]
pub struct FdtInst {
    pub id: u32,
    pub version: u8,
    pub first_idx: usize,
    /// log index of the packet that completed the first full emission
    pub complete_idx: Option<usize>,
    pub last_idx: usize,
    pub fti: Fti,
    pub cenc: u8,
    pub asm: Assembler,
    pub xml: Option<Vec<u8>>,
    pub doc: Option<FdtDoc>,
    pub errors: Vec<String>,
    pub pkts: Vec<usize>,
    pub sct: Vec<(usize, Option<u32>, Option<u32>)>,
}

impl FdtInst {
    pub fn lists(&self, toi: u128) -> Option<&FdtFile> {
        self.doc.as_ref().and_then(|d| d.files.iter().find(|f| f.toi == toi))
    }
}

#[derive(Debug, Clone)]
pub struct Transfer {
    pub toi: u128,
    pub start_idx: usize,
    pub stop_idx: Option<usize>,
    pub pkts: Vec<usize>,
}

/// wire-level description of how to rebuild one object
#[derive(Debug, Clone, PartialEq, Eq)]
pub struct WireOti {
    pub scheme: Scheme,
    pub l: u64,
    pub e: u16,
    /// max source block length when the wire carries it
    pub b: Option<u32>,
    /// number of blocks when the wire carries it (RaptorQ / Raptor Z)
    pub z: Option<u32>,
    pub nsub: u16,
    pub al: u8,
    pub max_n: Option<u32>,
    pub from_fti: bool,
}

impl WireOti {
    pub fn partition(&self) -> Option<Partition> {
        match (self.z, self.b) {
            (Some(z), _) if matches!(self.scheme, Scheme::RaptorQ | Scheme::Raptor) => {
                // RFC 6330 §4.4.1.2 / RFC 5053 §5.3.1.2: Partition[Kt, Z]
                let t = (self.l as u128 + self.e as u128 - 1) / (self.e as u128).max(1);
                if self.e == 0 {
                    return None;
                }
                if t == 0 {
                    // an empty object has no block; Z = 0 is what there is to say
                    return partition(0, self.e as u128, 1);
                }
                if z == 0 {
                    return None;
                }
                let n = z as u128;
                let a_large = (t + n - 1) / n;
                let a_small = t / n;
                Some(Partition { l: self.l as u128, e: self.e as u128, t, n, a_large, a_small, i: t - a_small * n })
            }
            (_, Some(b)) => partition(self.l as u128, self.e as u128, b as u128),
            _ => None,
        }
    }
}

pub fn wire_oti_from_fti(f: &Fti) -> WireOti {
    let rq = matches!(f.scheme, Scheme::RaptorQ | Scheme::Raptor);
    WireOti {
        scheme: f.scheme,
        l: f.transfer_length,
        e: f.e,
        b: if rq { None } else { Some(f.b) },
        z: if rq { Some(f.z as u32) } else { None },
        nsub: if rq { f.n } else { 1 },
        al: if rq { f.al } else { 1 },
        max_n: match f.scheme {
            Scheme::Rs28 | Scheme::Rs28Us | Scheme::Rs2m => Some(f.max_n),
            _ => None,
        },
        from_fti: true,
    }
}

/// OTI of a File entry (its own attributes, else the instance's), RFC 6726 §3.4.2
pub fn wire_oti_from_fdt(doc: &FdtDoc, file: &FdtFile) -> Result<Option<WireOti>, String> {
    let a = if file.oti.is_usable() { &file.oti } else { &doc.oti };
    if !a.is_usable() {
        return Ok(None);
    }
    let scheme = Scheme::from_id(a.fec_id.unwrap() as u8).ok_or("unknown FEC-OTI-FEC-Encoding-ID in FDT")?;
    let l = file.transfer_length.or(file.content_length).ok_or("File without Transfer-Length / Content-Length")?;
    let mut w = WireOti {
        scheme,
        l,
        e: a.esl.unwrap() as u16,
        b: Some(a.max_sbl.unwrap() as u32),
        z: None,
        nsub: 1,
        al: 1,
        max_n: a.max_n.map(|v| v as u32),
        from_fti: false,
    };
    if matches!(scheme, Scheme::RaptorQ | Scheme::Raptor) {
        let ssi = a.scheme_specific.as_ref().ok_or("Raptor/RaptorQ OTI in FDT without FEC-OTI-Scheme-Specific-Info")?;
        let raw = base64::engine::general_purpose::STANDARD.decode(ssi).map_err(|_| "scheme specific info is not base64")?;
        if raw.len() != 4 {
            return Err(format!("scheme specific info of {} bytes", raw.len()));
        }
        if scheme == Scheme::RaptorQ {
            // Z (8) | N (16) | Al (8)
            w.z = Some(raw[0] as u32);
            w.nsub = u16::from_be_bytes([raw[1], raw[2]]);
            w.al = raw[3];
        } else {
            // Z (16) | N (8) | Al (8)
            w.z = Some(u16::from_be_bytes([raw[0], raw[1]]) as u32);
            w.nsub = raw[2] as u16;
            w.al = raw[3];
        }
    }
    Ok(Some(w))
}

#[derive(Debug, Default)]
pub struct Analysis {
    pub fdts: Vec<FdtInst>,
    pub transfers: BTreeMap<u128, Vec<Transfer>>,
    pub errors: Vec<String>,
    /// object packet log indices outside any Start..Stop window
    pub stray: Vec<usize>,
}

impl Analysis {
    pub fn fdt_by_first_idx(&self) -> Vec<&FdtInst> {
        let mut v: Vec<&FdtInst> = self.fdts.iter().collect();
        v.sort_by_key(|f| f.first_idx);
        v
    }

    /// instances completely emitted before log index `idx`
    pub fn complete_before(&self, idx: usize) -> impl Iterator<Item = &FdtInst> {
        self.fdts.iter().filter(move |f| f.complete_idx.map(|c| c < idx).unwrap_or(false))
    }

    /// wire OTI of `toi` as a receiver knows it: in-band FTI of its packets, else the FDT
    pub fn wire_oti(&self, toi: u128, log: &[Rec]) -> Result<Option<WireOti>, String> {
        if let Some(ts) = self.transfers.get(&toi) {
            for t in ts {
                for i in &t.pkts {
                    if let Some((_, d)) = log[*i].pkt() {
                        if let Some(f) = &d.fti {
                            return Ok(Some(wire_oti_from_fti(f)));
                        }
                    }
                }
            }
        }
        for inst in &self.fdts {
            if let (Some(doc), Some(file)) = (inst.doc.as_ref(), inst.lists(toi)) {
                if let Some(w) = wire_oti_from_fdt(doc, file)? {
                    return Ok(Some(w));
                }
            }
        }
        Ok(None)
    }
}

pub fn analyse(log: &[Rec]) -> Analysis {
    let mut a = Analysis::default();
    // open FDT instance records by id -> index in a.fdts
    let mut cur_fdt: BTreeMap<u32, usize> = BTreeMap::new();
    let mut open: BTreeMap<u128, usize> = BTreeMap::new(); // toi -> index into transfers[toi]
    for (idx, r) in log.iter().enumerate() {
        match &r.kind {
            RecKind::Start(toi) => {
                let v = a.transfers.entry(*toi).or_default();
                if open.contains_key(toi) {
                    a.errors.push(format!("StartTransfer for toi {} at #{} while its previous transfer is still open", toi, idx));
                }
                v.push(Transfer { toi: *toi, start_idx: idx, stop_idx: None, pkts: vec![] });
                open.insert(*toi, v.len() - 1);
            }
            RecKind::Stop(toi) => match open.remove(toi) {
                Some(i) => a.transfers.get_mut(toi).unwrap()[i].stop_idx = Some(idx),
                None => a.errors.push(format!("StopTransfer for toi {} at #{} without a StartTransfer", toi, idx)),
            },
            RecKind::Op(_) => {}
            RecKind::Pkt { dec: Err(e), .. } => a.errors.push(format!("packet #{} not decodable by the reference decoder: {}", idx, e)),
            RecKind::Pkt { dec: Ok(d), .. } => {
                if d.lct.toi == 0 {
                    if d.lct.close_session && d.fdt.is_none() {
                        continue; // close-session packet
                    }
                    let (version, id) = match d.fdt {
                        Some(x) => x,
                        None => {
                            a.errors.push(format!("TOI 0 packet #{} without EXT_FDT", idx));
                            continue;
                        }
                    };
                    let fti = match &d.fti {
                        Some(f) => f.clone(),
                        None => {
                            a.errors.push(format!("FDT packet #{} without EXT_FTI", idx));
                            continue;
                        }
                    };
                    let cenc = d.cenc.unwrap_or(0);
                    let w = wire_oti_from_fti(&fti);
                    // new epoch of this id when the FTI changes
                    let need_new = match cur_fdt.get(&id) {
                        Some(i) => a.fdts[*i].fti != fti || a.fdts[*i].cenc != cenc,
                        None => true,
                    };
                    if need_new {
                        let part = w.partition();
                        let asm = part.and_then(|p| {
                            if p.l > (64 << 20) {
                                None
                            } else {
                                Some(Assembler { part: p, data: vec![0; p.l as usize], have: vec![false; p.t as usize], missing: p.t, errors: vec![] })
                            }
                        });
                        let asm = match asm {
                            Some(x) => x,
                            None => {
                                a.errors.push(format!("FDT instance {} has an FTI the reference cannot partition: {:?}", id, fti));
                                continue;
                            }
                        };
                        a.fdts.push(FdtInst {
                            id,
                            version,
                            first_idx: idx,
                            complete_idx: None,
                            last_idx: idx,
                            fti: fti.clone(),
                            cenc,
                            asm,
                            xml: None,
                            doc: None,
                            errors: vec![],
                            pkts: vec![],
                            sct: vec![],
                        });
                        cur_fdt.insert(id, a.fdts.len() - 1);
                    }
                    let inst = &mut a.fdts[cur_fdt[&id]];
                    inst.pkts.push(idx);
                    inst.last_idx = idx;
                    if let Some(t) = &d.time {
                        inst.sct.push((idx, t.sct_hi, t.sct_low));
                    }
                    push_symbol(&mut inst.asm, &w, d.pid.sbn, d.pid.esi, &d.payload);
                    if inst.complete_idx.is_none() && inst.asm.complete() {
                        inst.complete_idx = Some(idx);
                        inst.errors.extend(inst.asm.errors.drain(..));
                        match decode_content(inst.cenc, &inst.asm.data) {
                            Ok(x) => {
                                match fdt::parse(&x) {
                                    Ok(doc) => inst.doc = Some(doc),
                                    Err(e) => inst.errors.push(format!("FDT instance {}: {}", id, e)),
                                }
                                inst.xml = Some(x);
                            }
                            Err(e) => inst.errors.push(format!("FDT instance {} content decoding: {}", id, e)),
                        }
                    }
                } else {
                    match open.get(&d.lct.toi) {
                        Some(i) => a.transfers.get_mut(&d.lct.toi).unwrap()[*i].pkts.push(idx),
                        None => a.stray.push(idx),
                    }
                }
            }
        }
    }
    a
}

/// place one symbol following the RFCs; handles RaptorQ sub-blocking (RFC 6330 §4.4.1.2)
pub fn push_symbol(asm: &mut Assembler, w: &WireOti, sbn: u32, esi: u32, payload: &[u8]) -> bool {
    if w.scheme == Scheme::RaptorQ && w.nsub > 1 {
        return push_symbol_subblocks(asm, w, sbn, esi, payload);
    }
    asm.push(sbn, esi, payload)
}

fn push_symbol_subblocks(asm: &mut Assembler, w: &WireOti, sbn: u32, esi: u32, payload: &[u8]) -> bool {
    let k = match asm.k(sbn) {
        Some(k) => k,
        None => {
            asm.errors.push(format!("SBN {} out of range", sbn));
            return false;
        }
    };
    if esi >= k {
        return false;
    }
    let t = w.e as usize;
    if payload.len() != t {
        asm.errors.push(format!("RaptorQ symbol ({},{}) with {} bytes, T={}", sbn, esi, payload.len(), t));
        return true;
    }
    let al = w.al.max(1) as usize;
    let n = w.nsub as usize;
    // (TL, TS, NL, NS) = Partition[T/Al, N]
    let units = t / al;
    let tl = (units + n - 1) / n;
    let ts = units / n;
    let nl = units - ts * n;
    let k = k as usize;
    let block_off = asm.part.offset(sbn as u128) as usize;
    let block_len = asm.part.block_len(sbn as u128) as usize;
    let idx = (asm.part.first_symbol(sbn as u128) + esi as u128) as usize;
    let mut sub_off = 0usize; // offset of sub-block j inside the (padded) block
    let mut p_off = 0usize;
    for j in 0..n {
        let sz = if j < nl { tl * al } else { ts * al };
        let dst = sub_off + esi as usize * sz;
        for x in 0..sz {
            let pos = dst + x;
            if pos < block_len {
                let g = block_off + pos;
                if asm.have[idx] && asm.data[g] != payload[p_off + x] {
                    asm.errors.push(format!("symbol ({},{}) repeated with different bytes", sbn, esi));
                }
                asm.data[g] = payload[p_off + x];
            } else if payload[p_off + x] != 0 {
                asm.errors.push(format!("non-zero padding in RaptorQ symbol ({},{})", sbn, esi));
            }
        }
        sub_off += k * sz;
        p_off += sz;
    }
    if !asm.have[idx] {
        asm.have[idx] = true;
        asm.missing -= 1;
    }
    true
}
