//! Shared proptest strategies (DESIGN.md section 3).  Every random choice of a case is made
//! here, inside proptest, so that cases shrink and replay.

use crate::rfc::fti::Scheme;
use crate::spec::*;
use proptest::prelude::*;

/// map a generated u16 "index" monotonically onto 0..len (shrinks towards 0)
pub fn pick_idx(i: u16, len: usize) -> usize {
    ((i as usize) * len) >> 16
}

pub fn scheme_strategy() -> BoxedStrategy<Scheme> {
    prop_oneof![
        3 => Just(Scheme::NoCode),
        3 => Just(Scheme::Rs28),
        2 => Just(Scheme::Rs28Us),
        2 => Just(Scheme::RaptorQ),
        2 => Just(Scheme::Raptor),
    ]
    .boxed()
}

#[derive(Debug, Clone, Copy)]
pub struct OtiOpts {
    pub max_e: u16,
    pub max_b: u32,
    pub max_parity: u32,
    pub allow_nsub: bool,
}

impl Default for OtiOpts {
    fn default() -> Self {
        OtiOpts { max_e: 1500, max_b: 70, max_parity: 6, allow_nsub: true }
    }
}

pub fn e_strategy(max_e: u16) -> BoxedStrategy<u16> {
    let max_e = max_e.max(1);
    prop_oneof![
        5 => 1u16..=16u16.min(max_e),
        3 => 1u16..=256u16.min(max_e),
        1 => prop_oneof![Just(1u16), Just(2), Just(3), Just(4), Just(7), Just(8), Just(16), Just(64), Just(255), Just(1024), Just(1400), Just(1424), Just(65535)]
            .prop_map(move |e| e.min(max_e)),
        1 => 1u16..=max_e,
    ]
    .boxed()
}

pub fn oti_for(scheme: Scheme, o: OtiOpts) -> BoxedStrategy<OtiSpec> {
    let maxb = o.max_b.max(1);
    let b_s = prop_oneof![4 => 1u32..=6u32.min(maxb), 3 => 1u32..=20u32.min(maxb), 1 => 1u32..=maxb];
    (e_strategy(o.max_e), b_s, 0u32..=o.max_parity, any::<bool>(), 0u8..4, 1u16..=4)
        .prop_map(move |(e, b, parity, inband, alsel, nsub)| {
            let mut s = OtiSpec { scheme, e, b, parity, inband_fti: inband, al: 1, nsub: 1 };
            match scheme {
                Scheme::NoCode => s.parity = 0,
                Scheme::Rs28 | Scheme::Rs28Us => {
                    s.b = s.b.min(200);
                    s.parity = s.parity.min(255 - s.b);
                }
                Scheme::RaptorQ | Scheme::Raptor => {
                    let al = [1u8, 2, 4, 8][alsel as usize];
                    // E must be a multiple of Al
                    let e2 = ((e as u32 + al as u32 - 1) / al as u32 * al as u32).min(65528).max(al as u32);
                    s.e = e2 as u16;
                    s.al = al;
                    if scheme == Scheme::RaptorQ && o.allow_nsub {
                        // N sub-blocks needs N <= E/Al (RFC 6330 §4.4.1.2)
                        s.nsub = nsub.min((s.e / al as u16).max(1)).min(if e % 3 == 0 { 4 } else { 1 });
                    }
                }
                Scheme::Rs2m => {}
            }
            s
        })
        .boxed()
}

pub fn oti_strategy(o: OtiOpts) -> BoxedStrategy<OtiSpec> {
    scheme_strategy().prop_flat_map(move |s| oti_for(s, o)).boxed()
}

/// size of an object chosen relative to the symbol / block structure of `oti`
#[derive(Debug, Clone, Copy)]
pub struct SizeSel {
    pub class: u8,
    pub k: u32,
    pub jitter: i8,
}

pub fn size_sel() -> BoxedStrategy<SizeSel> {
    (0u8..16, 0u32..400, -1i8..=1).prop_map(|(class, k, jitter)| SizeSel { class, k, jitter }).boxed()
}

pub fn size_for(sel: SizeSel, oti: &OtiSpec, cap: usize) -> usize {
    let e = oti.e as i64;
    let b = oti.b as i64;
    let j = sel.jitter as i64;
    let k = sel.k as i64;
    let v: i64 = match sel.class {
        0 => 0,
        1 => 1,
        2 => e + j,                                 // E-1, E, E+1
        3 => (k % 12 + 1) * e + j,                  // a few symbols +-1
        4 => b * e + j,                             // exactly one full block +-1
        5 => (k % 4 + 2) * b * e + j,               // several full blocks +-1
        6 => ((k % 5 + 1) * b + (k % b.max(1)) + 1) * e + j, // T mod N != 0 very likely
        7 => (2 * b + 1) * e - (k % e.max(1)),      // 3 blocks, unequal, short last symbol
        8 => k % (e.max(1) * 3 + 1),                // below / around a symbol
        9 => (b + 1) * e + j,                       // just over one block: 2 unequal blocks
        10 => k * 7 + j,
        11 => k * e / 3,
        12 => (k % 3 + 1) * b * e - (k % (e.max(1))),
        _ => k * 13 % (cap as i64 + 1),
    };
    (v.max(0) as usize).min(cap)
}

pub fn content_kind() -> BoxedStrategy<ContentKind> {
    prop_oneof![3 => Just(ContentKind::Random), 2 => Just(ContentKind::Text), 1 => Just(ContentKind::Zeros)].boxed()
}

/// strings that are legal metadata and exercise XML escaping; no C0 controls, no leading or
/// trailing white space (see DESIGN.md 2.9)
pub fn meta_string() -> BoxedStrategy<String> {
    prop_oneof![
        4 => "[a-zA-Z0-9/_.-]{1,12}",
        3 => "[a-zA-Z0-9 <>&\"'=;/+%#?-]{1,24}".prop_map(|s: String| s.trim().to_string()).prop_filter("non-empty", |s| !s.is_empty()),
        2 => "[a-zé日本ü€ß<&\"']{1,10}",
        1 => "[a-z&<>]{100,300}",
    ]
    .boxed()
}

pub fn content_type() -> BoxedStrategy<String> {
    prop_oneof![
        3 => Just("application/octet-stream".to_string()),
        2 => Just("text/plain; charset=\"utf-8\"".to_string()),
        2 => meta_string(),
    ]
    .boxed()
}

/// URL path segment material; `url::Url` percent-encodes what it has to
pub fn location(idx: usize) -> BoxedStrategy<String> {
    prop_oneof![
        4 => "[a-z0-9_]{1,8}".prop_map(move |s| format!("file:///o{}/{}", idx, s)),
        // no leading/trailing blank: Url::parse trims them and the name would become a directory
        2 => "[a-zA-Z0-9&'=+,;~!$()*-][a-zA-Z0-9 &'=+,;~!$()*-]{0,14}[a-zA-Z0-9&'=+,;~!$()*-]".prop_map(move |s| format!("file:///o{}/{}", idx, s)),
        2 => "[a-z0-9]{1,6}".prop_map(move |s| format!("http://example.com/o{}/{}?q=1&r=<2>", idx, s)),
        1 => "[a-zé日ü]{1,6}".prop_map(move |s| format!("https://h.example/o{}/d/{}.bin", idx, s)),
    ]
    .boxed()
}

pub fn cache_spec() -> BoxedStrategy<Option<CacheSpec>> {
    prop_oneof![
        8 => Just(None),
        1 => Just(Some(CacheSpec::NoCache)),
        4 => Just(Some(CacheSpec::MaxStale)),
        4 => (1u64..1_000_000).prop_map(|s| Some(CacheSpec::ExpiresSecs(s))),
        4 => (-1000i64..10_000_000).prop_map(|s| Some(CacheSpec::ExpiresAtOffsetSecs(s))),
    ]
    .boxed()
}

pub fn groups() -> BoxedStrategy<Option<Vec<String>>> {
    prop_oneof![
        3 => Just(None),
        2 => proptest::collection::vec(meta_string(), 1..3).prop_map(Some),
    ]
    .boxed()
}

pub fn source_spec(allow_stream: bool) -> BoxedStrategy<SourceSpec> {
    if !allow_stream {
        return prop_oneof![4 => Just(SourceSpec::Buffer), 1 => Just(SourceSpec::FileCached)].boxed();
    }
    prop_oneof![
        6 => Just(SourceSpec::Buffer),
        1 => Just(SourceSpec::FileCached),
        1 => Just(SourceSpec::FileStream),
        1 => Just(SourceSpec::Cursor),
    ]
    .boxed()
}

#[derive(Debug, Clone)]
pub struct ObjOpts {
    pub oti: OtiOpts,
    pub max_size: usize,
    pub allow_override: bool,
    pub allow_cenc: bool,
    pub allow_stream: bool,
    pub max_transfers: u32,
    pub rich_meta: bool,
}

impl Default for ObjOpts {
    fn default() -> Self {
        ObjOpts {
            oti: OtiOpts::default(),
            max_size: 6000,
            allow_override: true,
            allow_cenc: true,
            allow_stream: true,
            max_transfers: 3,
            rich_meta: true,
        }
    }
}

/// an object whose size is chosen relative to its *effective* OTI (override or session default)
pub fn obj_strategy(idx: usize, session_oti: OtiSpec, o: ObjOpts) -> BoxedStrategy<ObjSpec> {
    let override_s: BoxedStrategy<Option<OtiSpec>> = if o.allow_override {
        prop_oneof![3 => Just(None), 2 => oti_strategy(o.oti).prop_map(Some)].boxed()
    } else {
        Just(None).boxed()
    };
    let cenc_s: BoxedStrategy<u8> = if o.allow_cenc { prop_oneof![3 => Just(0u8), 1 => Just(1u8), 1 => Just(2u8), 1 => Just(3u8)].boxed() } else { Just(0u8).boxed() };
    let meta = if o.rich_meta {
        (content_type(), location(idx), cache_spec(), groups(), proptest::option::weighted(0.4, meta_string())).boxed()
    } else {
        (Just("application/octet-stream".to_string()), location(idx), Just(None), Just(None), Just(None)).boxed()
    };
    let max_size = o.max_size;
    let max_transfers = o.max_transfers.max(1);
    let allow_stream = o.allow_stream;
    (
        override_s,
        size_sel(),
        content_kind(),
        any::<u64>(),
        cenc_s,
        any::<bool>(),
        any::<bool>(),
        prop_oneof![6 => Just(1u32), 2 => Just(2u32.min(max_transfers)), 1 => 1u32..=max_transfers],
        meta,
        source_spec(allow_stream),
        any::<bool>(),
    )
        .prop_map(move |(ov, sel, kind, seed, cenc, inband_cenc, md5, mtc, meta, source, reserve)| {
            let eff = ov.clone().unwrap_or_else(|| session_oti.clone());
            let mut size = size_for(sel, &eff, max_size);
            // Raptor: whole symbols most of the time (the unaligned case is an open finding and
            // would be excluded; it is still generated in a minority of cases)
            if eff.scheme == Scheme::Raptor && seed % 5 != 0 {
                size -= size % eff.e.max(1) as usize;
                // and blocks of at least 4 symbols
                if size / (eff.e.max(1) as usize) < 4 * (eff.b.max(1) as usize).min(4) {
                    size = size.max(4 * eff.e as usize).min(max_size.max(4 * eff.e as usize));
                }
            }
            let (content_type, location, cache, groups, etag) = meta;
            // a stream is sent as is: flute's create_from_file refuses cenc != null with a stream
            let source = if cenc != 0 { match source { SourceSpec::Buffer | SourceSpec::FileCached => source, _ => SourceSpec::Buffer } } else { source };
            ObjSpec {
                content: ContentSpec { size, kind, seed: seed % 1_000_000 },
                content_type,
                location,
                md5,
                cenc,
                inband_cenc,
                oti: ov,
                max_transfer_count: mtc,
                carousel: None,
                cache,
                groups,
                etag,
                start_offset_ms: None,
                target: None,
                priority: 0,
                immediate_stop: None,
                source,
                reserve_toi: reserve,
                // (seed-derived: half of the stream sources are handed over with the cursor somewhere inside)
                stream_start: if seed % 2 == 0 { 0 } else { (seed >> 3) as u16 },
            }
        })
        .boxed()
}

#[derive(Debug, Clone)]
pub struct SenderOpts {
    pub oti: OtiOpts,
    /// keep the session default symbol size >= this most of the time (FDT cost, DESIGN 3)
    pub min_default_e: u16,
    pub max_queues: usize,
}

impl Default for SenderOpts {
    fn default() -> Self {
        SenderOpts { oti: OtiOpts::default(), min_default_e: 64, max_queues: 3 }
    }
}

pub fn sender_strategy(o: SenderOpts) -> BoxedStrategy<SenderSpec> {
    let min_e = o.min_default_e;
    let oti = (oti_strategy(o.oti), 0u8..10).prop_map(move |(mut s, tiny)| {
        // a Raptor session default is mostly unusable while the Raptor findings are open (the FDT
        // instance itself falls under them): keep it to a small share of the sessions
        if s.scheme == Scheme::Raptor && tiny % 4 != 1 {
            s.scheme = Scheme::RaptorQ;
        }
        // tiny session-default symbols only in ~10% of the cases
        if tiny != 0 && s.e < min_e {
            let al = s.al.max(1) as u16;
            s.e = ((min_e + (s.e % 200)) / al * al).max(al);
        }
        s
    });
    let fdt_id = prop_oneof![3 => Just(1u32), 1 => Just(0u32), 2 => 0u32..(1 << 20), 2 => (1u32 << 20) - 4..(1 << 20)];
    let queues = proptest::collection::vec((0u32..6, 0u32..4), 1..=o.max_queues.max(1)).prop_map(|mut v| {
        v.sort();
        v.dedup_by_key(|q| q.0);
        v
    });
    let toi = (prop_oneof![Just(16u8), Just(32), Just(48), Just(64), Just(80), Just(112)], prop_oneof![3 => Just(1u128), 1 => Just(0u128), 2 => any::<u64>().prop_map(|v| v as u128), 1 => any::<u128>()])
        .prop_map(|(w, init)| {
            // initial value inside the width (the 112-bit random default is C15's business)
            let mask = if w >= 112 { (1u128 << 112) - 1 } else { (1u128 << w) - 1 };
            (w, Some(init & mask))
        });
    (
        oti,
        prop_oneof![3 => Just(0u8), 1 => 1u8..4],
        any::<bool>(),
        any::<bool>(),
        fdt_id,
        prop_oneof![Just(3600u64), Just(30), Just(5), 1u64..100_000],
        any::<bool>(),
        1u8..=5,
        queues,
        toi,
        groups(),
        prop_oneof![Just(1u64), Just(0xFFFF), Just(0x1_0000), Just(0xFFFF_FFFF), Just(0x1_0000_0000), Just(0xFFFF_FFFF_FFFF), 0u64..(1 << 48)],
    )
        .prop_map(|(oti, fdt_cenc, full_fdt, rfc3926, fdt_start_id, fdt_duration_s, inband_sct, interleave, queues, toi, groups, tsi)| SenderSpec {
            tsi,
            oti,
            fdt_cenc,
            full_fdt,
            rfc3926,
            fdt_start_id,
            fdt_duration_s,
            fdt_carousel: CarouselSpec::DelayMs(1000),
            inband_sct,
            interleave,
            queues,
            toi_width: toi.0,
            toi_initial: toi.1,
            groups,
        })
        .boxed()
}

/// a sender plus 1..n objects spread over its queues
pub fn session_strategy(so: SenderOpts, oo: ObjOpts, max_objs: usize) -> BoxedStrategy<(SenderSpec, Vec<ObjSpec>)> {
    sender_strategy(so)
        .prop_flat_map(move |s| {
            let oo = oo.clone();
            let session_oti = s.oti.clone();
            let queues = s.queues.clone();
            let objs = (1..=max_objs.max(1)).prop_flat_map(move |n| {
                let v: Vec<BoxedStrategy<ObjSpec>> = (0..n).map(|i| obj_strategy(i, session_oti.clone(), oo.clone())).collect();
                v
            });
            (Just(s), objs, proptest::collection::vec(any::<u16>(), max_objs.max(1)))
                .prop_map(move |(s, mut objs, qsel)| {
                    for (i, o) in objs.iter_mut().enumerate() {
                        o.priority = queues[pick_idx(qsel[i], queues.len())].0;
                    }
                    (s, objs)
                })
        })
        .boxed()
}
