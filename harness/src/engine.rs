//! Engine: runs the parts of a property check (proptest-generated, enumerated, custom),
//! collects coverage statistics, shrinks failures into replay files, applies the
//! known-findings file and writes the evidence JSON.

use proptest::strategy::{BoxedStrategy, Strategy};
use proptest::test_runner::{Config, RngAlgorithm, RngSeed, TestCaseError, TestError, TestRunner};
use serde::Serialize;
use serde_json::{json, Value};
use std::cell::{Cell, RefCell};
use std::collections::{BTreeMap, HashSet};
use std::sync::atomic::{AtomicBool, AtomicU64, Ordering};
use std::sync::Mutex;
use std::time::{Duration, Instant};

pub fn verif_dir() -> String {
    std::env::var("VERIF_DIR").unwrap_or_else(|_| "/verif".to_string())
}

#[derive(Clone, Copy, PartialEq, Eq, Debug)]
pub enum Tier {
    Quick,
    Thorough,
}

impl Tier {
    pub fn name(&self) -> &'static str {
        match self {
            Tier::Quick => "quick",
            Tier::Thorough => "thorough",
        }
    }
    /// pick by tier
    pub fn pick<T>(&self, quick: T, thorough: T) -> T {
        match self {
            Tier::Quick => quick,
            Tier::Thorough => thorough,
        }
    }
}

pub fn fnv(b: &[u8]) -> u64 {
    let mut h: u64 = 0xcbf29ce484222325;
    for x in b {
        h ^= *x as u64;
        h = h.wrapping_mul(0x100000001b3);
    }
    h
}

pub fn mix(a: u64, b: u64) -> u64 {
    let mut z = a ^ b.wrapping_mul(0x9E3779B97F4A7C15).rotate_left(17);
    z = (z ^ (z >> 30)).wrapping_mul(0xBF58476D1CE4E5B9);
    z = (z ^ (z >> 27)).wrapping_mul(0x94D049BB133111EB);
    z ^ (z >> 31)
}

// ------------------------------------------------------------------------------------------
// panic capture

thread_local! {
    static LAST_PANIC: RefCell<Option<String>> = const { RefCell::new(None) };
}

pub fn install_panic_hook() {
    std::panic::set_hook(Box::new(|info| {
        let loc = info
            .location()
            .map(|l| format!("{}:{}", l.file(), l.line()))
            .unwrap_or_else(|| "?".into());
        let msg = if let Some(s) = info.payload().downcast_ref::<&str>() {
            (*s).to_string()
        } else if let Some(s) = info.payload().downcast_ref::<String>() {
            s.clone()
        } else {
            "<non-string panic>".to_string()
        };
        let _ = LAST_PANIC.try_with(|p| {
            if let Ok(mut g) = p.try_borrow_mut() {
                *g = Some(format!("panic at {}: {}", loc, msg));
            }
        });
    }));
}

/// Run `f`, turning a panic into Err(description).  flute is built with overflow checks and
/// debug assertions, so arithmetic overflow and failed internal assertions arrive here too.
pub fn caught<R>(f: impl FnOnce() -> R) -> Result<R, String> {
    LAST_PANIC.with(|p| *p.borrow_mut() = None);
    match std::panic::catch_unwind(std::panic::AssertUnwindSafe(f)) {
        Ok(r) => Ok(r),
        Err(_) => Err(LAST_PANIC
            .with(|p| p.borrow_mut().take())
            .unwrap_or_else(|| "panic (no message captured)".into())),
    }
}

/// A panic that escaped a case.  Calls into flute are wrapped by the properties themselves, so what
/// arrives here normally comes from harness code.  A panic raised at a harness source location
/// (the harness crate is compiled with relative paths, "src/...") is a defect of the machinery:
/// it ends the run with exit code 2 and is never reported as a violation of the property.
fn uncaught(p: String) -> String {
    let site = panic_site(&p);
    if site.starts_with("src/") {
        crate::out::line(&format!("HARNESS ERROR: {} (panic raised by harness code, not a verdict)", p));
        std::process::exit(2);
    }
    format!("{} (uncaught in harness case runner)", p)
}

/// location part of a captured panic ("src/common/lct.rs:351") for known-finding signatures
pub fn panic_site(msg: &str) -> String {
    // "panic at <file>:<line>: ..."
    msg.strip_prefix("panic at ")
        .and_then(|r| {
            let mut it = r.splitn(3, ':');
            let f = it.next()?;
            let l = it.next()?;
            Some(format!("{}:{}", f, l))
        })
        .unwrap_or_default()
}

// ------------------------------------------------------------------------------------------
// case bookkeeping

#[derive(Default, Debug, Clone)]
pub struct CaseInfo {
    pub labels: Vec<String>,
    pub nontrivial: bool,
    pub excluded: Option<String>,
    /// extra key mixed into the distinctness hash (optional)
    pub evals: u64,
}

impl CaseInfo {
    pub fn new() -> Self {
        CaseInfo { labels: Vec::new(), nontrivial: false, excluded: None, evals: 1 }
    }
    pub fn label(&mut self, s: impl Into<String>) -> &mut Self {
        self.labels.push(s.into());
        self
    }
    pub fn label_if(&mut self, c: bool, s: &str) -> &mut Self {
        if c {
            self.labels.push(s.to_string());
        }
        self
    }
    pub fn nt(&mut self, b: bool) -> &mut Self {
        self.nontrivial = self.nontrivial || b;
        self
    }
    pub fn excluded(key: &str) -> Self {
        CaseInfo { labels: vec![], nontrivial: false, excluded: Some(key.to_string()), evals: 1 }
    }
}

pub type CaseResult = Result<CaseInfo, String>;

#[derive(Default)]
pub struct Stats {
    pub evaluations: u64,
    pub nontrivial_count: u64,
    pub nontrivial: HashSet<u64>,
    pub labels: BTreeMap<String, u64>,
    pub excluded: BTreeMap<String, u64>,
    pub samples: Vec<Value>,
}

impl Stats {
    pub fn record(&mut self, info: &CaseInfo, hash: u64, sample: impl FnOnce() -> Value) {
        if let Some(k) = &info.excluded {
            *self.excluded.entry(k.clone()).or_insert(0) += 1;
            return;
        }
        self.evaluations += info.evals.max(1);
        for l in &info.labels {
            *self.labels.entry(l.clone()).or_insert(0) += 1;
        }
        if info.nontrivial {
            self.nontrivial_count += 1;
            let fresh = self.nontrivial.insert(hash);
            if fresh && self.samples.len() < 3 {
                self.samples.push(sample());
            }
        }
    }
    pub fn merge(&mut self, o: Stats) {
        self.evaluations += o.evaluations;
        self.nontrivial_count += o.nontrivial_count;
        self.nontrivial.extend(o.nontrivial);
        for (k, v) in o.labels {
            *self.labels.entry(k).or_insert(0) += v;
        }
        for (k, v) in o.excluded {
            *self.excluded.entry(k).or_insert(0) += v;
        }
        for s in o.samples {
            if self.samples.len() < 6 {
                self.samples.push(s);
            }
        }
    }
}

#[derive(Clone)]
pub struct PartCfg {
    pub name: &'static str,
    pub rule: String,
    pub cases: u64,
    pub workers: usize,
    pub limit: Duration,
    pub hang_is_violation: bool,
    pub max_shrink_iters: u32,
    /// an enumerated part that walks only a slice of its space must not be reported as exhaustive
    pub sampled_enumeration: bool,
}

impl PartCfg {
    pub fn new(name: &'static str, rule: impl Into<String>, cases: u64) -> Self {
        PartCfg {
            name,
            rule: rule.into(),
            cases,
            workers: default_workers(),
            limit: Duration::from_secs(120),
            hang_is_violation: false,
            max_shrink_iters: 600,
            sampled_enumeration: false,
        }
    }
    pub fn workers(mut self, w: usize) -> Self {
        self.workers = w.max(1);
        self
    }
    pub fn limit_s(mut self, s: u64) -> Self {
        self.limit = Duration::from_secs(s);
        self
    }
    pub fn hang_violates(mut self) -> Self {
        self.hang_is_violation = true;
        self
    }
    pub fn slice(mut self) -> Self {
        self.sampled_enumeration = true;
        self
    }
    pub fn shrink_iters(mut self, n: u32) -> Self {
        self.max_shrink_iters = n;
        self
    }
}

pub fn default_workers() -> usize {
    std::env::var("VERIF_WORKERS")
        .ok()
        .and_then(|s| s.parse().ok())
        .unwrap_or_else(|| std::thread::available_parallelism().map(|n| n.get()).unwrap_or(8).min(16))
}

pub struct PartReport {
    pub name: String,
    pub rule: String,
    pub stats: Stats,
    pub exhaustive: bool,
    pub distinct_by_construction: bool,
    pub wall_s: f64,
}

pub struct Violation {
    pub part: String,
    pub message: String,
    pub replay: String,
}

#[derive(Clone, Debug, serde::Deserialize)]
pub struct KnownFinding {
    pub property: String,
    pub key: String,
    pub status: String,
    #[serde(default)]
    pub what_fails: String,
    #[serde(default)]
    pub signature: String,
    #[serde(default)]
    pub commit: String,
    #[serde(default)]
    pub part: String,
    #[serde(default)]
    pub minimal_input: Value,
    #[serde(default)]
    pub expect: String,
}

static G_EVALS: AtomicU64 = AtomicU64::new(0);
static G_EVIDENCE_PATH: Mutex<Option<(String, String, u64, String)>> = Mutex::new(None);

/// best-effort evidence when the process has to exit from the watchdog
pub fn emergency_evidence(property: &str, violations: i64, why: &str) {
    if let Some((path, tier, seed, level)) = G_EVIDENCE_PATH.lock().unwrap_or_else(|e| e.into_inner()).clone() {
        let ev = json!({
            "property_id": property, "tier": tier, "seed": seed, "level": level,
            "coverage": {"evaluations": G_EVALS.load(Ordering::Relaxed).max(1), "distinct_nontrivial": 0,
                          "rule": "run ended early", "samples": [why], "explanation": why},
            "wall_s": 0.0, "violations": violations
        });
        let _ = std::fs::write(path, serde_json::to_string_pretty(&ev).unwrap());
    }
}

pub struct Engine {
    pub id: &'static str,
    pub tier: Tier,
    pub seed: u64,
    pub level: &'static str,
    start: Instant,
    pub parts: Vec<PartReport>,
    pub violations: Vec<Violation>,
    pub known: Vec<KnownFinding>,
    pub known_lines: Vec<String>,
    pub assumptions: Vec<String>,
    pub notes: Vec<String>,
    pub extra: BTreeMap<String, Value>,
    pub replay_dir: String,
    pub evidence_path: String,
}

impl Engine {
    pub fn new(id: &'static str, level: &'static str, tier: Tier, seed: u64) -> Engine {
        let replay_dir = std::env::var("VERIF_REPLAY_DIR").unwrap_or_else(|_| format!("{}/replays", verif_dir()));
        let _ = std::fs::create_dir_all(&replay_dir);
        let evidence_path =
            std::env::var("VERIF_EVIDENCE").unwrap_or_else(|_| format!("{}/evidence/{}.json", verif_dir(), id));
        if let Some(p) = std::path::Path::new(&evidence_path).parent() {
            let _ = std::fs::create_dir_all(p);
        }
        *G_EVIDENCE_PATH.lock().unwrap() =
            Some((evidence_path.clone(), tier.name().to_string(), seed, level.to_string()));
        crate::watchdog::start(id, &replay_dir);
        let known = load_known().into_iter().filter(|k| k.property == id).collect();
        Engine {
            id,
            tier,
            seed,
            level,
            start: Instant::now(),
            parts: vec![],
            violations: vec![],
            known,
            known_lines: vec![],
            assumptions: vec![],
            notes: vec![],
            extra: BTreeMap::new(),
            replay_dir,
            evidence_path,
        }
    }

    pub fn kf_open(&self, key: &str) -> bool {
        self.known.iter().any(|k| k.key == key && k.status == "open")
    }

    pub fn kf(&self, key: &str) -> Option<&KnownFinding> {
        self.known.iter().find(|k| k.key == key)
    }

    pub fn assume(&mut self, s: &str) {
        self.assumptions.push(s.to_string());
    }

    pub fn note(&mut self, s: impl Into<String>) {
        let s = s.into();
        crate::say!("note: {}", s);
        self.notes.push(s);
    }

    pub fn derive_seed(&self, part: &str, worker: usize) -> u64 {
        mix(mix(self.seed, fnv(self.id.as_bytes())), mix(fnv(part.as_bytes()), worker as u64))
    }

    fn replay_doc(&self, part: &str, case: &Value, message: &str) -> String {
        serde_json::to_string_pretty(&json!({
            "property": self.id, "part": part, "case": case, "message": message,
        }))
        .unwrap()
    }

    pub fn save_replay(&self, part: &str, case: &Value, message: &str) -> String {
        let doc = self.replay_doc(part, case, message);
        let h = fnv(serde_json::to_string(case).unwrap().as_bytes());
        let path = format!("{}/{}-{}-{:016x}.json", self.replay_dir, self.id, part, h);
        let _ = std::fs::write(&path, doc);
        path
    }

    pub fn violation(&mut self, part: &str, case: &Value, message: &str) {
        let path = self.save_replay(part, case, message);
        crate::say!("[{}:{}] FAILED: {}", self.id, part, truncate(message, 1500));
        self.violations.push(Violation { part: part.to_string(), message: message.to_string(), replay: path });
    }

    /// proptest-driven part.  `mk` builds the strategy (called once per worker), `run` executes
    /// one case.  The first failure per worker is shrunk; the smallest shrunk value becomes the
    /// replay file.
    pub fn generated<T, F>(&mut self, cfg: PartCfg, mk: impl Fn() -> BoxedStrategy<T> + Sync, run: F)
    where
        T: std::fmt::Debug + Clone + Serialize + Send,
        F: Fn(&T) -> CaseResult + Sync,
    {
        let t0 = Instant::now();
        let workers = cfg.workers.min(cfg.cases.max(1) as usize).max(1);
        let per = (cfg.cases + workers as u64 - 1) / workers as u64;
        let stop = AtomicBool::new(false);
        let results: Mutex<Vec<(Stats, Option<(Value, String, usize)>)>> = Mutex::new(vec![]);
        let id = self.id;
        std::thread::scope(|sc| {
            for w in 0..workers {
                let seed = self.derive_seed(cfg.name, w);
                let cfg = &cfg;
                let mk = &mk;
                let run = &run;
                let stop = &stop;
                let results = &results;
                std::thread::Builder::new()
                    .name(format!("{}-{}-{}", id, cfg.name, w))
                    .stack_size(64 << 20)
                    .spawn_scoped(sc, move || {
                        let pcfg = Config {
                            cases: per as u32,
                            max_local_rejects: 65536,
                            max_global_rejects: 4096,
                            max_flat_map_regens: 1_000_000,
                            failure_persistence: None,
                            source_file: None,
                            test_name: None,
                            // shrinking is best effort: a failing case that is expensive to re-run (non-termination guards)
                            // must not turn a detection into an hour of shrinking
                            max_shrink_time: 45_000,
                            max_shrink_iters: cfg.max_shrink_iters,
                            max_default_size_range: 100,
                            verbose: 0,
                            rng_algorithm: RngAlgorithm::ChaCha,
                            rng_seed: RngSeed::Fixed(seed),
                            ..Config::default()
                        };
                        let mut runner = TestRunner::new(pcfg);
                        let strategy = mk();
                        let stats = RefCell::new(Stats::default());
                        let failed = Cell::new(false);
                        let res = runner.run(&strategy, |v| {
                            if stop.load(Ordering::Relaxed) && !failed.get() {
                                // another worker failed: finish quickly, do not count
                                return Ok(());
                            }
                            let js = serde_json::to_value(&v).unwrap_or(Value::Null);
                            let jstr = serde_json::to_string(&js).unwrap_or_default();
                            let doc = format!(
                                "{{\"property\":\"{}\",\"part\":\"{}\",\"message\":\"published by worker before running\",\"case\":{}}}",
                                id, cfg.name, jstr
                            );
                            let _g = crate::watchdog::publish(id, doc, cfg.limit, cfg.hang_is_violation);
                            let r = match caught(|| run(&v)) {
                                Ok(r) => r,
                                Err(p) => Err(uncaught(p)),
                            };
                            match r {
                                Ok(info) => {
                                    if !failed.get() {
                                        G_EVALS.fetch_add(1, Ordering::Relaxed);
                                        stats.borrow_mut().record(&info, fnv(jstr.as_bytes()), || js.clone());
                                    }
                                    Ok(())
                                }
                                Err(m) => {
                                    failed.set(true);
                                    stop.store(true, Ordering::Relaxed);
                                    Err(TestCaseError::fail(m))
                                }
                            }
                        });
                        let fail = match res {
                            Ok(()) => None,
                            Err(TestError::Fail(reason, value)) => {
                                let js = serde_json::to_value(&value).unwrap_or(Value::Null);
                                let size = serde_json::to_string(&js).map(|s| s.len()).unwrap_or(0);
                                Some((js, reason.message().to_string(), size))
                            }
                            Err(TestError::Abort(reason)) => Some((
                                Value::Null,
                                format!("HARNESS: proptest aborted: {}", reason.message()),
                                usize::MAX,
                            )),
                        };
                        results.lock().unwrap().push((stats.into_inner(), fail));
                    })
                    .expect("spawn worker");
            }
        });
        let mut stats = Stats::default();
        let mut best: Option<(Value, String, usize)> = None;
        for (s, f) in results.into_inner().unwrap() {
            stats.merge(s);
            if let Some(f) = f {
                if best.as_ref().map(|b| f.2 < b.2).unwrap_or(true) {
                    best = Some(f);
                }
            }
        }
        if let Some((case, msg, _)) = best {
            if msg.starts_with("HARNESS:") {
                crate::say!("[{}:{}] {}", self.id, cfg.name, msg);
                self.notes.push(msg);
                self.extra.insert("harness_error".into(), json!(true));
            } else {
                self.violation(cfg.name, &case, &msg);
            }
        }
        self.push_part(cfg.name, &cfg.rule, stats, false, false, t0);
    }

    /// enumerated part: indices 0..total, `gen(i)` builds the case; all indices are run unless a
    /// failure stops the run; the failure with the smallest index is reported.
    pub fn enumerated<T, F>(
        &mut self,
        cfg: PartCfg,
        total: u64,
        gen: impl Fn(u64) -> T + Sync,
        run: F,
    ) where
        T: Serialize,
        F: Fn(&T) -> CaseResult + Sync,
    {
        let t0 = Instant::now();
        let workers = cfg.workers.min(total.max(1) as usize).max(1);
        let stop = AtomicBool::new(false);
        let results: Mutex<Vec<(Stats, Option<(u64, Value, String)>)>> = Mutex::new(vec![]);
        let id = self.id;
        std::thread::scope(|sc| {
            for w in 0..workers {
                let cfg = &cfg;
                let gen = &gen;
                let run = &run;
                let stop = &stop;
                let results = &results;
                std::thread::Builder::new()
                    .name(format!("{}-{}-{}", id, cfg.name, w))
                    .stack_size(64 << 20)
                    .spawn_scoped(sc, move || {
                        let mut stats = Stats::default();
                        let mut fail = None;
                        let mut i = w as u64;
                        while i < total {
                            if stop.load(Ordering::Relaxed) {
                                break;
                            }
                            let v = gen(i);
                            let js = serde_json::to_value(&v).unwrap_or(Value::Null);
                            let jstr = serde_json::to_string(&js).unwrap_or_default();
                            let doc = format!(
                                "{{\"property\":\"{}\",\"part\":\"{}\",\"message\":\"published by worker before running\",\"case\":{}}}",
                                id, cfg.name, jstr
                            );
                            let _g = crate::watchdog::publish(id, doc, cfg.limit, cfg.hang_is_violation);
                            let r = match caught(|| run(&v)) {
                                Ok(r) => r,
                                Err(p) => Err(uncaught(p)),
                            };
                            match r {
                                Ok(info) => {
                                    G_EVALS.fetch_add(1, Ordering::Relaxed);
                                    stats.record(&info, fnv(jstr.as_bytes()), || js.clone());
                                }
                                Err(m) => {
                                    fail = Some((i, js, m));
                                    stop.store(true, Ordering::Relaxed);
                                    break;
                                }
                            }
                            i += workers as u64;
                        }
                        results.lock().unwrap().push((stats, fail));
                    })
                    .expect("spawn worker");
            }
        });
        let mut stats = Stats::default();
        let mut best: Option<(u64, Value, String)> = None;
        for (s, f) in results.into_inner().unwrap() {
            stats.merge(s);
            if let Some(f) = f {
                if best.as_ref().map(|b| f.0 < b.0).unwrap_or(true) {
                    best = Some(f);
                }
            }
        }
        let complete = best.is_none();
        if let Some((_, case, msg)) = best {
            self.violation(cfg.name, &case, &msg);
        }
        self.push_part(cfg.name, &cfg.rule, stats, complete && !cfg.sampled_enumeration, false, t0);
    }

    /// custom part: the closure owns the loop (used for cheap exhaustive boxes where per-case
    /// bookkeeping would dominate).  `chunks` work items are distributed over the workers; the
    /// closure returns the chunk's statistics or a failing case.
    pub fn chunked<F>(&mut self, cfg: PartCfg, chunks: u64, exhaustive: bool, run: F)
    where
        F: Fn(u64, &mut Stats) -> Result<(), (Value, String)> + Sync,
    {
        let t0 = Instant::now();
        let workers = cfg.workers.min(chunks.max(1) as usize).max(1);
        let next = AtomicU64::new(0);
        let stop = AtomicBool::new(false);
        let results: Mutex<Vec<(Stats, Option<(u64, Value, String)>)>> = Mutex::new(vec![]);
        let id = self.id;
        std::thread::scope(|sc| {
            for w in 0..workers {
                let cfg = &cfg;
                let run = &run;
                let stop = &stop;
                let next = &next;
                let results = &results;
                std::thread::Builder::new()
                    .name(format!("{}-{}-{}", id, cfg.name, w))
                    .stack_size(64 << 20)
                    .spawn_scoped(sc, move || {
                        let mut stats = Stats::default();
                        let mut fail = None;
                        loop {
                            if stop.load(Ordering::Relaxed) {
                                break;
                            }
                            let c = next.fetch_add(1, Ordering::Relaxed);
                            if c >= chunks {
                                break;
                            }
                            let doc = format!(
                                "{{\"property\":\"{}\",\"part\":\"{}\",\"message\":\"published by worker before running\",\"case\":{{\"chunk\":{}}}}}",
                                id, cfg.name, c
                            );
                            let _g = crate::watchdog::publish(id, doc, cfg.limit, cfg.hang_is_violation);
                            let before = stats.evaluations;
                            let r = match caught(|| run(c, &mut stats)) {
                                Ok(r) => r,
                                Err(p) => Err((json!({"chunk": c}), format!("{} (uncaught in chunk)", p))),
                            };
                            G_EVALS.fetch_add(stats.evaluations - before, Ordering::Relaxed);
                            if let Err((case, m)) = r {
                                fail = Some((c, case, m));
                                stop.store(true, Ordering::Relaxed);
                                break;
                            }
                        }
                        results.lock().unwrap().push((stats, fail));
                    })
                    .expect("spawn worker");
            }
        });
        let mut stats = Stats::default();
        let mut best: Option<(u64, Value, String)> = None;
        for (s, f) in results.into_inner().unwrap() {
            stats.merge(s);
            if let Some(f) = f {
                if best.as_ref().map(|b| f.0 < b.0).unwrap_or(true) {
                    best = Some(f);
                }
            }
        }
        let complete = best.is_none();
        if let Some((_, case, msg)) = best {
            self.violation(cfg.name, &case, &msg);
        }
        self.push_part(cfg.name, &cfg.rule, stats, exhaustive && complete, true, t0);
    }

    /// run a list of fixed cases (regression cases for fixed findings, saved replays)
    pub fn fixed_cases<T: Serialize>(
        &mut self,
        name: &'static str,
        rule: &str,
        cases: &[T],
        run: impl Fn(&T) -> CaseResult,
    ) {
        let t0 = Instant::now();
        let mut stats = Stats::default();
        for c in cases {
            let js = serde_json::to_value(c).unwrap_or(Value::Null);
            let jstr = serde_json::to_string(&js).unwrap_or_default();
            let doc = format!(
                "{{\"property\":\"{}\",\"part\":\"{}\",\"message\":\"published before running\",\"case\":{}}}",
                self.id, name, jstr
            );
            let _g = crate::watchdog::publish(self.id, doc, Duration::from_secs(120), true);
            let r = match caught(|| run(c)) {
                Ok(r) => r,
                Err(p) => Err(uncaught(p)),
            };
            match r {
                Ok(info) => stats.record(&info, fnv(jstr.as_bytes()), || js.clone()),
                Err(m) => self.violation(name, &js, &m),
            }
        }
        self.push_part(name, rule, stats, false, false, t0);
    }

    pub fn push_part(
        &mut self,
        name: &str,
        rule: &str,
        stats: Stats,
        exhaustive: bool,
        distinct_by_construction: bool,
        t0: Instant,
    ) {
        let wall = t0.elapsed().as_secs_f64();
        let dn = if distinct_by_construction { stats.nontrivial_count } else { stats.nontrivial.len() as u64 };
        crate::say!(
            "[{}:{}] evaluations={} distinct_nontrivial={} excluded_known={:?} exhaustive={} wall={:.1}s",
            self.id,
            name,
            stats.evaluations,
            dn,
            stats.excluded,
            exhaustive,
            wall
        );
        if std::env::var("VERIF_LABELS").is_ok() {
            for (k, v) in &stats.labels {
                crate::say!("    label {:<40} {}", k, v);
            }
        }
        self.parts.push(PartReport {
            name: name.to_string(),
            rule: rule.to_string(),
            stats,
            exhaustive,
            distinct_by_construction,
            wall_s: wall,
        });
    }

    /// report an open known finding whose pinned case was executed in this run
    pub fn known_finding_line(&mut self, key: &str, reproduced: bool, detail: &str) {
        let what = self.kf(key).map(|k| k.what_fails.clone()).unwrap_or_default();
        if reproduced {
            let line = format!("KNOWN-FINDING: property={} key={} {} [{}]", self.id, key, what, detail);
            crate::say!("{}", line);
            self.known_lines.push(line);
        } else {
            let line = format!(
                "note: known finding property={} key={} did not reproduce on this tree ({})",
                self.id, key, detail
            );
            crate::say!("{}", line);
            self.known_lines.push(line);
        }
    }

    pub fn finish(self) -> i32 {
        let wall = self.start.elapsed().as_secs_f64();
        let mut evaluations = 0u64;
        let mut dn = 0u64;
        let mut samples: Vec<Value> = vec![];
        let mut rules = vec![];
        let mut parts = vec![];
        let mut all_exhaustive = !self.parts.is_empty();
        for p in &self.parts {
            let pdn = if p.distinct_by_construction { p.stats.nontrivial_count } else { p.stats.nontrivial.len() as u64 };
            evaluations += p.stats.evaluations;
            dn += pdn;
            all_exhaustive &= p.exhaustive;
            rules.push(format!("[{}] {}", p.name, p.rule));
            for s in p.stats.samples.iter().take(2) {
                samples.push(json!({"part": p.name, "case": s}));
            }
            parts.push(json!({
                "name": p.name, "rule": p.rule, "evaluations": p.stats.evaluations,
                "distinct_nontrivial": pdn, "nontrivial_evaluations": p.stats.nontrivial_count,
                "exhaustive": p.exhaustive,
                "labels": p.stats.labels, "excluded_known": p.stats.excluded, "wall_s": p.wall_s,
            }));
        }
        if samples.is_empty() {
            samples.push(json!("no non-trivial case was recorded in this run"));
        }
        let mut coverage = json!({
            "evaluations": evaluations,
            "distinct_nontrivial": dn,
            "rule": rules.join(" | "),
            "samples": samples,
            "exhaustive": all_exhaustive,
            "parts": parts,
            "known_findings": self.known_lines,
            "notes": self.notes,
        });
        for (k, v) in &self.extra {
            coverage[k] = v.clone();
        }
        let ev = json!({
            "property_id": self.id,
            "tier": self.tier.name(),
            "seed": self.seed,
            "level": self.level,
            "coverage": coverage,
            "assumptions": self.assumptions,
            "wall_s": wall,
            "violations": self.violations.len(),
        });
        let _ = std::fs::write(&self.evidence_path, serde_json::to_string_pretty(&ev).unwrap());
        crate::say!(
            "[{}] tier={} seed={} evaluations={} distinct_nontrivial={} violations={} wall={:.1}s evidence={}",
            self.id,
            self.tier.name(),
            self.seed,
            evaluations,
            dn,
            self.violations.len(),
            wall,
            self.evidence_path
        );
        if self.extra.contains_key("harness_error") {
            crate::say!("HARNESS ERROR property={} (see notes) - inconclusive", self.id);
            return 2;
        }
        if self.violations.is_empty() {
            0
        } else {
            for v in &self.violations {
                crate::say!("VIOLATION property={} replay={}", self.id, v.replay);
            }
            1
        }
    }
}

pub fn truncate(s: &str, n: usize) -> String {
    if s.len() <= n {
        s.to_string()
    } else {
        let mut end = n;
        while !s.is_char_boundary(end) {
            end -= 1;
        }
        format!("{}…[{} bytes]", &s[..end], s.len())
    }
}

pub fn load_known() -> Vec<KnownFinding> {
    let path = std::env::var("VERIF_KNOWN").unwrap_or_else(|_| format!("{}/known_findings.json", verif_dir()));
    let txt = match std::fs::read_to_string(&path) {
        Ok(t) => t,
        Err(_) => return vec![],
    };
    #[derive(serde::Deserialize)]
    struct F {
        findings: Vec<KnownFinding>,
    }
    match serde_json::from_str::<F>(&txt) {
        Ok(f) => f.findings,
        Err(e) => {
            crate::say!("HARNESS: cannot parse {}: {}", path, e);
            vec![]
        }
    }
}

/// helper: boxed strategy from anything
pub fn bx<T: std::fmt::Debug, S: Strategy<Value = T> + 'static>(s: S) -> BoxedStrategy<T> {
    s.boxed()
}

pub fn hex(b: &[u8]) -> String {
    b.iter().map(|x| format!("{:02x}", x)).collect()
}

pub fn unhex(s: &str) -> Option<Vec<u8>> {
    if s.len() % 2 != 0 {
        return None;
    }
    (0..s.len() / 2).map(|i| u8::from_str_radix(s.get(2 * i..2 * i + 2)?, 16).ok()).collect()
}

pub fn replay_dir() -> String {
    std::env::var("VERIF_REPLAY_DIR").unwrap_or_else(|_| format!("{}/replays", verif_dir()))
}
