use fv::engine::{self, Tier};
use fv::say;

fn usage() -> i32 {
    say!("usage: flute-verif <Cxx> <quick|thorough>   |   flute-verif replay <file>   |   flute-verif list");
    2
}

fn main() {
    fv::out::init();
    engine::install_panic_hook();
    let args: Vec<String> = std::env::args().collect();
    let code = real_main(&args);
    std::process::exit(code);
}

fn real_main(args: &[String]) -> i32 {
    if args.len() < 2 {
        return usage();
    }
    match args[1].as_str() {
        "list" => {
            for p in fv::props::all() {
                say!("{} {}", p.id, p.level);
            }
            0
        }
        "corpus" => {
            for i in 0..fv::corpus::CORPUS_TOTAL {
                match engine::caught(|| fv::corpus::build(i, 1)) {
                    Ok(Ok(c)) => say!("{:3} {:40} packets={} tl={:?}", i, c.label, c.packets.len(), c.expected.iter().map(|e| e.1.len()).collect::<Vec<_>>()),
                    Ok(Err(e)) => say!("{:3} ERROR {}", i, e),
                    Err(p) => say!("{:3} PANIC {} {:?}", i, p, fv::corpus::corpus_spec(i, 1).2),
                }
            }
            0
        }
        // fuzz-artifact <C04|C06> <file>: re-run a libFuzzer artifact with the stable binary; on a
        // failure the decoded case is written as an ordinary replay file
        "fuzz-artifact" => {
            if args.len() < 4 {
                return usage();
            }
            fuzz_artifact(&args[2], &args[3])
        }
        // fuzz-seeds <C04|C06> <dir>: write the starting corpus of the libFuzzer campaign
        "fuzz-seeds" => {
            if args.len() < 4 {
                return usage();
            }
            fuzz_seeds(&args[2], &args[3])
        }
        "replay" => {
            if args.len() < 3 {
                return usage();
            }
            replay(&args[2])
        }
        id => {
            let tier = match args.get(2).map(|s| s.as_str()).or(std::env::var("VERIF_TIER").ok().as_deref().map(|_| "env")) {
                Some("thorough") => Tier::Thorough,
                Some("quick") => Tier::Quick,
                Some("env") => {
                    if std::env::var("VERIF_TIER").map(|v| v == "thorough").unwrap_or(false) {
                        Tier::Thorough
                    } else {
                        Tier::Quick
                    }
                }
                _ => Tier::Quick,
            };
            let seed = std::env::var("VERIF_SEED").ok().and_then(|s| s.trim().parse::<i128>().ok()).map(|v| v as u64).unwrap_or(0);
            fv::props::run_property(id, tier, seed)
        }
    }
}

fn replay(path: &str) -> i32 {
    let txt = match std::fs::read_to_string(path) {
        Ok(t) => t,
        Err(e) => {
            say!("cannot read {}: {}", path, e);
            return 2;
        }
    };
    let v: serde_json::Value = match serde_json::from_str(&txt) {
        Ok(v) => v,
        Err(e) => {
            say!("cannot parse {}: {}", path, e);
            return 2;
        }
    };
    let id = v["property"].as_str().unwrap_or("");
    let part = v["part"].as_str().unwrap_or("");
    let p = match fv::props::find(id) {
        Some(p) => p,
        None => {
            say!("replay file names unknown property {:?}", id);
            return 2;
        }
    };
    fv::watchdog::start(p.id, "/tmp");
    let doc = txt.clone();
    let _g = fv::watchdog::publish(p.id, doc, std::time::Duration::from_secs(120), true);
    let r = engine::caught(|| (p.replay)(part, &v["case"]));
    match r {
        Ok(Some(Ok(info))) => {
            say!("replay {} part={}: property held on this case (labels {:?}, nontrivial={})", id, part, info.labels, info.nontrivial);
            0
        }
        Ok(Some(Err(m))) => {
            say!("replay {} part={}: FAILED: {}", id, part, m);
            say!("VIOLATION property={} replay={}", id, path);
            1
        }
        Ok(None) => {
            say!("replay: part {:?} of {} has no replay function or the case does not deserialize", part, id);
            2
        }
        Err(p) => {
            say!("replay {} part={}: FAILED: {}", id, part, p);
            say!("VIOLATION property={} replay={}", id, path);
            1
        }
    }
}

fn fuzz_artifact(id: &str, path: &str) -> i32 {
    let data = match std::fs::read(path) {
        Ok(d) => d,
        Err(e) => {
            say!("cannot read {}: {}", path, e);
            return 2;
        }
    };
    let (part, case) = match id {
        "C04" => ("mutations", serde_json::to_value(fv::props::c04::seq_case_from_bytes(&data)).unwrap_or(serde_json::Value::Null)),
        "C06" => ("fuzz-bytes", serde_json::json!({ "hex": engine::hex(&data) })),
        _ => return usage(),
    };
    let p = fv::props::find(id).unwrap();
    fv::watchdog::start(p.id, "/tmp");
    let doc = serde_json::json!({"property": id, "part": part, "case": case, "message": "libFuzzer artifact"});
    let _g = fv::watchdog::publish(p.id, doc.to_string(), std::time::Duration::from_secs(120), true);
    let r = engine::caught(|| (p.replay)(part, &case));
    let msg = match r {
        Ok(Some(Ok(_))) => {
            say!("fuzz-artifact {}: the stable binary does not reproduce a failure on {}", id, path);
            return 0;
        }
        Ok(Some(Err(m))) => m,
        Ok(None) => {
            say!("fuzz-artifact {}: the case does not deserialize", id);
            return 2;
        }
        Err(p) => p,
    };
    let dir = engine::replay_dir();
    let _ = std::fs::create_dir_all(&dir);
    let out = format!("{}/{}-fuzz-{:016x}.json", dir, id, engine::fnv(&data));
    let doc = serde_json::json!({"property": id, "part": part, "case": case, "message": msg});
    let _ = std::fs::write(&out, serde_json::to_string_pretty(&doc).unwrap_or_default());
    say!("[{}:fuzz] FAILED: {}", id, msg);
    say!("VIOLATION property={} replay={}", id, out);
    1
}

fn fuzz_seeds(id: &str, dir: &str) -> i32 {
    let _ = std::fs::create_dir_all(dir);
    let mut n = 0;
    match id {
        "C06" => {
            // datagrams of the valid corpus sessions: the first packets of each (FDT, first and last object packets)
            for i in 0..fv::corpus::CORPUS_TOTAL {
                if let Ok(Ok(c)) = engine::caught(|| fv::corpus::build(i, 1)) {
                    let k = c.packets.len();
                    for j in [0usize, 1, k / 2, k.saturating_sub(1)] {
                        if let Some((_, b)) = c.packets.get(j) {
                            if std::fs::write(format!("{}/s{:03}-{:03}", dir, i, j), b).is_ok() {
                                n += 1;
                            }
                        }
                    }
                }
            }
        }
        "C04" => {
            // (session index, cache class, one mutation of every kind with spread positions)
            let mut x: u64 = 0x9E3779B97F4A7C15;
            let mut next = move || {
                x ^= x << 13;
                x ^= x >> 7;
                x ^= x << 17;
                x
            };
            for i in 0..fv::corpus::CORPUS_TOTAL {
                for tag in 0..14u8 {
                    if (i + tag as usize) % 4 != 0 {
                        continue;
                    }
                    let mut b = vec![(i & 0xff) as u8, (i >> 8) as u8, (next() & 3) as u8, tag];
                    for _ in 0..24 {
                        b.push((next() >> 24) as u8);
                    }
                    if std::fs::write(format!("{}/s{:03}-{:02}", dir, i, tag), &b).is_ok() {
                        n += 1;
                    }
                }
            }
        }
        _ => return usage(),
    }
    say!("fuzz-seeds {}: {} files in {}", id, n, dir);
    0
}
