use fv::engine::{self, Tier};
use fv::say;

fn usage() -> i32 {
    say!("usage: flute-verif <Cxx> <quick|thorough>   |   flute-verif replay <file>   |   flute-verif list");
    2
}

fn main() {
    fv::out::init();
    engine::install_panic_hook();
    let args: Vec<String> = std::env::args().collect();
    let code = real_main(&args);
    std::process::exit(code);
}

fn real_main(args: &[String]) -> i32 {
    if args.len() < 2 {
        return usage();
    }
    match args[1].as_str() {
        "list" => {
            for p in fv::props::all() {
                say!("{} {}", p.id, p.level);
            }
            0
        }
        "corpus" => {
            for i in 0..fv::corpus::CORPUS_TOTAL {
                match engine::caught(|| fv::corpus::build(i, 1)) {
                    Ok(Ok(c)) => say!("{:3} {:40} packets={} tl={:?}", i, c.label, c.packets.len(), c.expected.iter().map(|e| e.1.len()).collect::<Vec<_>>()),
                    Ok(Err(e)) => say!("{:3} ERROR {}", i, e),
                    Err(p) => say!("{:3} PANIC {} {:?}", i, p, fv::corpus::corpus_spec(i, 1).2),
                }
            }
            0
        }
        "replay" => {
            if args.len() < 3 {
                return usage();
            }
            replay(&args[2])
        }
        id => {
            let tier = match args.get(2).map(|s| s.as_str()).or(std::env::var("VERIF_TIER").ok().as_deref().map(|_| "env")) {
                Some("thorough") => Tier::Thorough,
                Some("quick") => Tier::Quick,
                Some("env") => {
                    if std::env::var("VERIF_TIER").map(|v| v == "thorough").unwrap_or(false) {
                        Tier::Thorough
                    } else {
                        Tier::Quick
                    }
                }
                _ => Tier::Quick,
            };
            let seed = std::env::var("VERIF_SEED").ok().and_then(|s| s.trim().parse::<i128>().ok()).map(|v| v as u64).unwrap_or(0);
            fv::props::run_property(id, tier, seed)
        }
    }
}

fn replay(path: &str) -> i32 {
    let txt = match std::fs::read_to_string(path) {
        Ok(t) => t,
        Err(e) => {
            say!("cannot read {}: {}", path, e);
            return 2;
        }
    };
    let v: serde_json::Value = match serde_json::from_str(&txt) {
        Ok(v) => v,
        Err(e) => {
            say!("cannot parse {}: {}", path, e);
            return 2;
        }
    };
    let id = v["property"].as_str().unwrap_or("");
    let part = v["part"].as_str().unwrap_or("");
    let p = match fv::props::find(id) {
        Some(p) => p,
        None => {
            say!("replay file names unknown property {:?}", id);
            return 2;
        }
    };
    fv::watchdog::start(p.id, "/tmp");
    let doc = txt.clone();
    let _g = fv::watchdog::publish(p.id, doc, std::time::Duration::from_secs(120), true);
    let r = engine::caught(|| (p.replay)(part, &v["case"]));
    match r {
        Ok(Some(Ok(info))) => {
            say!("replay {} part={}: property held on this case (labels {:?}, nontrivial={})", id, part, info.labels, info.nontrivial);
            0
        }
        Ok(Some(Err(m))) => {
            say!("replay {} part={}: FAILED: {}", id, part, m);
            say!("VIOLATION property={} replay={}", id, path);
            1
        }
        Ok(None) => {
            say!("replay: part {:?} of {} has no replay function or the case does not deserialize", part, id);
            2
        }
        Err(p) => {
            say!("replay {} part={}: FAILED: {}", id, part, p);
            say!("VIOLATION property={} replay={}", id, path);
            1
        }
    }
}
