//! Operation sequences on a Sender (add / remove / publish / set_complete / read / advance /
//! trigger) interpreted against a SenderDriver; shared by C10-C14.

use crate::drive::*;
use crate::spec::*;
use serde::{Deserialize, Serialize};
use std::time::{Duration, SystemTime};

#[derive(Debug, Clone, PartialEq, Eq, Serialize, Deserialize)]
pub enum Op {
    Add(Box<ObjSpec>),
    /// remove the i-th added (and still listed) object; `true` = publish right after (FullFDT)
    Remove(u16, bool),
    Publish,
    SetComplete,
    /// up to n reads at the current instant (stops at the first None)
    Read(u16),
    /// read until None
    Drain,
    /// advance the virtual clock (microseconds)
    Advance(u64),
    /// trigger_transfer_at(i-th object, now + offset ms)
    Trigger(u16, Option<i64>),
}

#[derive(Debug, Clone, PartialEq, Eq, Serialize, Deserialize)]
pub struct OpCase {
    pub sender: SenderSpec,
    pub ops: Vec<Op>,
}

#[derive(Debug, Clone)]
pub struct Added {
    pub toi: u128,
    pub spec: ObjSpec,
    pub eff: OtiSpec,
    pub bytes: Vec<u8>,
    pub transfer_len: u64,
    pub add_idx: usize,
    pub add_time: SystemTime,
    pub removed_idx: Option<usize>,
    pub removed_time: Option<SystemTime>,
    pub triggers: Vec<(usize, SystemTime, Option<SystemTime>)>,
}

#[derive(Debug, Clone)]
pub struct Publish {
    pub idx: usize,
    pub time: SystemTime,
    pub ok: bool,
}

#[derive(Debug, Clone)]
pub struct Poll {
    /// log length before the call
    pub idx: usize,
    pub time: SystemTime,
    /// log index of the packet returned, None = nothing to send
    pub pkt: Option<usize>,
}

/// sender state sampled after a read() call
#[derive(Debug, Clone)]
pub struct Sample {
    /// log length after the call
    pub idx: usize,
    pub after_none: bool,
    pub nb_objects: usize,
    /// per added object (same order as `added` at that time): (is_added, nb_transfers, in get_objects_in_fdt)
    pub per: Vec<(bool, Option<u64>, bool)>,
}

pub struct OpsRun {
    pub samples: Vec<Sample>,
    pub drv: SenderDriver,
    pub added: Vec<Added>,
    pub refused: Vec<(usize, String)>,
    pub publishes: Vec<Publish>,
    pub polls: Vec<Poll>,
    pub set_complete_idx: Option<usize>,
    pub add_after_complete_rejected: Vec<bool>,
    /// remove_object() answered false for an object that, by the harness' own bookkeeping (added, not
    /// removed, StopTransfer events < max_transfer_count or carousel), is still in the sender: (toi, log index)
    pub remove_refused: Vec<(u128, usize)>,
}

fn idx(i: u16, len: usize) -> usize {
    ((i as usize) * len) >> 16
}

pub const READ_BOUND: usize = 400_000;

pub fn run_ops(c: &OpCase) -> Result<OpsRun, String> {
    run_ops_probe(c, false)
}

fn sample(drv: &mut SenderDriver, added: &[Added], after_none: bool) -> Sample {
    let listed = drv.sender.get_objects_in_fdt().keys().cloned().collect::<std::collections::BTreeSet<u128>>();
    let per = added.iter().map(|a| (drv.sender.is_added(a.toi), drv.sender.nb_transfers(a.toi), listed.contains(&a.toi))).collect();
    Sample { idx: drv.log.len(), after_none, nb_objects: drv.sender.nb_objects(), per }
}

pub fn run_ops_probe(c: &OpCase, probe: bool) -> Result<OpsRun, String> {
    let mut drv = SenderDriver::new(&c.sender)?;
    let mut run = OpsRun { samples: vec![], drv: SenderDriver::new(&c.sender)?, added: vec![], refused: vec![], publishes: vec![], polls: vec![], set_complete_idx: None, add_after_complete_rejected: vec![], remove_refused: vec![] };
    let mut total_pkts = 0usize;
    for (n, op) in c.ops.iter().enumerate() {
        match op {
            Op::Add(o) => {
                let before = drv.log.len();
                match drv.add(o) {
                    Ok((toi, bytes)) => {
                        if run.set_complete_idx.is_some() {
                            run.add_after_complete_rejected.push(false);
                        }
                        let tl = drv.sender.get_objects_in_fdt().get(&toi).map(|d| d.transfer_length).unwrap_or(0);
                        run.added.push(Added {
                            toi,
                            spec: (**o).clone(),
                            eff: o.oti.clone().unwrap_or_else(|| c.sender.oti.clone()),
                            bytes,
                            transfer_len: tl,
                            add_idx: before,
                            add_time: drv.now,
                            removed_idx: None,
                            removed_time: None,
                            triggers: vec![],
                        });
                    }
                    Err(e) => {
                        if run.set_complete_idx.is_some() {
                            run.add_after_complete_rejected.push(true);
                        }
                        run.refused.push((n, e));
                    }
                }
            }
            Op::Remove(i, publish) => {
                // candidates come from the harness' own bookkeeping, not from flute's is_added(): added,
                // not removed, and not finished according to the StopTransfer events observed so far
                let mut stops: std::collections::BTreeMap<u128, u32> = Default::default();
                for r in &drv.log {
                    if let RecKind::Stop(t) = &r.kind {
                        *stops.entry(*t).or_insert(0) += 1;
                    }
                }
                let listed: Vec<usize> = (0..run.added.len())
                    .filter(|k| {
                        let a = &run.added[*k];
                        a.removed_idx.is_none() && (a.spec.carousel.is_some() || *stops.get(&a.toi).unwrap_or(&0) < a.spec.max_transfer_count.max(1))
                    })
                    .collect();
                if !listed.is_empty() {
                    let k = listed[idx(*i, listed.len())];
                    let toi = run.added[k].toi;
                    if drv.remove(toi) {
                        run.added[k].removed_idx = Some(drv.log.len() - 1);
                        run.added[k].removed_time = Some(drv.now);
                    } else {
                        run.remove_refused.push((toi, drv.log.len() - 1));
                    }
                    if *publish && c.sender.full_fdt {
                        let r = drv.publish();
                        run.publishes.push(Publish { idx: drv.log.len() - 1, time: drv.now, ok: r.is_ok() });
                    }
                }
            }
            Op::Publish => {
                let r = drv.publish();
                run.publishes.push(Publish { idx: drv.log.len() - 1, time: drv.now, ok: r.is_ok() });
            }
            Op::SetComplete => {
                drv.sender.set_complete();
                drv.op("set_complete");
                if run.set_complete_idx.is_none() {
                    run.set_complete_idx = Some(drv.log.len() - 1);
                }
            }
            Op::Read(k) => {
                for _ in 0..(*k).max(1) {
                    let before = drv.log.len();
                    let r = drv.read();
                    run.polls.push(Poll { idx: before, time: drv.now, pkt: r });
                    if probe {
                        let s = sample(&mut drv, &run.added, r.is_none());
                        run.samples.push(s);
                    }
                    if r.is_none() {
                        break;
                    }
                    total_pkts += 1;
                }
            }
            Op::Drain => {
                let mut g = 0usize;
                loop {
                    let before = drv.log.len();
                    let r = drv.read();
                    run.polls.push(Poll { idx: before, time: drv.now, pkt: r });
                    if probe {
                        let s = sample(&mut drv, &run.added, r.is_none());
                        run.samples.push(s);
                    }
                    if r.is_none() {
                        break;
                    }
                    total_pkts += 1;
                    g += 1;
                    if g > READ_BOUND {
                        return Err(format!("read() returned a packet more than {} times at one fixed instant", READ_BOUND));
                    }
                }
            }
            Op::Advance(us) => {
                drv.advance(Duration::from_micros(*us));
            }
            Op::Trigger(i, off) => {
                if !run.added.is_empty() {
                    let k = idx(*i, run.added.len());
                    let at = off.map(|ms| if ms >= 0 { drv.now + Duration::from_millis(ms as u64) } else { drv.now - Duration::from_millis((-ms) as u64) });
                    let ok = drv.sender.trigger_transfer_at(run.added[k].toi, at);
                    drv.op(format!("trigger toi={} at={:?} -> {}", run.added[k].toi, off, ok));
                    // documented: no action when the object is being transferred (a transfer is open
                    // from its StartTransfer to its StopTransfer event)
                    let toi = run.added[k].toi;
                    let starts = drv.log.iter().filter(|r| matches!(r.kind, RecKind::Start(t) if t == toi)).count();
                    let stops = drv.log.iter().filter(|r| matches!(r.kind, RecKind::Stop(t) if t == toi)).count();
                    if ok && starts == stops {
                        run.added[k].triggers.push((drv.log.len() - 1, drv.now, at));
                    }
                }
            }
        }
        if total_pkts > 2_000_000 {
            return Err("more than 2e6 packets in one operation sequence".into());
        }
    }
    run.drv = drv;
    Ok(run)
}

// ------------------------------------------------------------------------------------------
// generator

use crate::gen;
use proptest::prelude::*;

#[derive(Debug, Clone)]
pub struct OpsOpts {
    pub max_ops: usize,
    pub obj: gen::ObjOpts,
    pub sender: gen::SenderOpts,
    /// start times, carousel modes, target acquisition, triggers
    pub timing: bool,
    pub removal: bool,
    pub set_complete: bool,
    /// rounds of [drain, advance] appended so that pending work can finish
    pub tail_rounds: usize,
    pub tail_step_us: u64,
    pub max_transfers: u32,
}

impl Default for OpsOpts {
    fn default() -> Self {
        OpsOpts {
            max_ops: 30,
            obj: gen::ObjOpts { max_size: 1500, allow_stream: false, rich_meta: false, ..Default::default() },
            sender: gen::SenderOpts::default(),
            timing: false,
            removal: true,
            set_complete: false,
            tail_rounds: 6,
            tail_step_us: 400_000,
            max_transfers: 3,
        }
    }
}

pub fn timing_fields() -> BoxedStrategy<(Option<CarouselSpec>, Option<i64>, Option<TargetSpec>, Option<bool>)> {
    (
        proptest::option::weighted(0.3, prop_oneof![prop_oneof![Just(0u64), Just(1), 0u64..3000].prop_map(CarouselSpec::DelayMs), prop_oneof![Just(0u64), Just(1), 0u64..3000].prop_map(CarouselSpec::IntervalMs)]),
        proptest::option::weighted(0.3, prop_oneof![Just(0i64), -2000i64..6000]),
        proptest::option::weighted(
            0.35,
            prop_oneof![
                1 => Just(TargetSpec::Fast),
                3 => prop_oneof![Just(0u64), Just(1), Just(1000), 0u64..3_000_000].prop_map(TargetSpec::WithinUs),
                2 => prop_oneof![Just(0i64), -2_000_000i64..5_000_000].prop_map(TargetSpec::AtOffsetUs),
            ],
        ),
        proptest::option::weighted(0.3, any::<bool>()),
    )
        .boxed()
}

pub fn ops_strategy(o: OpsOpts) -> BoxedStrategy<OpCase> {
    gen::sender_strategy(o.sender.clone())
        .prop_flat_map(move |sender| {
            let o = o.clone();
            let session_oti = sender.oti.clone();
            let queues = sender.queues.clone();
            let obj = {
                let o2 = o.clone();
                let queues = queues.clone();
                (0usize..64, any::<u16>(), timing_fields()).prop_flat_map(move |(i, q, tf)| {
                    let queues = queues.clone();
                    let timing = o2.timing;
                    let mt = o2.max_transfers;
                    (gen::obj_strategy(i, session_oti.clone(), o2.obj.clone()), 1u32..=mt).prop_map(move |(mut ob, mtc)| {
                        ob.priority = queues[gen::pick_idx(q, queues.len())].0;
                        ob.max_transfer_count = mtc;
                        if timing {
                            ob.carousel = tf.0;
                            ob.start_offset_ms = tf.1;
                            ob.target = tf.2;
                        }
                        ob.immediate_stop = tf.3;
                        ob
                    })
                })
            };
            let mut choices: Vec<(u32, BoxedStrategy<Op>)> = vec![
                (6, obj.prop_map(|ob| Op::Add(Box::new(ob))).boxed()),
                (4, Just(Op::Publish).boxed()),
                (6, prop_oneof![Just(1u16), Just(2), 1u16..40].prop_map(Op::Read).boxed()),
                (3, Just(Op::Drain).boxed()),
                (4, prop_oneof![Just(1u64), Just(1000), Just(250_000), Just(1_000_000), 1u64..5_000_000, 1u64..120_000_000].prop_map(Op::Advance).boxed()),
            ];
            if o.removal {
                choices.push((3, (any::<u16>(), any::<bool>()).prop_map(|(i, p)| Op::Remove(i, p)).boxed()));
            }
            if o.set_complete {
                choices.push((1, Just(Op::SetComplete).boxed()));
            }
            if o.timing {
                choices.push((2, (any::<u16>(), proptest::option::weighted(0.6, -1000i64..4000)).prop_map(|(i, off)| Op::Trigger(i, off)).boxed()));
            }
            let op = proptest::strategy::Union::new_weighted(choices);
            let tail_rounds = o.tail_rounds;
            let tail_step = o.tail_step_us;
            (Just(sender), proptest::collection::vec(op, 1..o.max_ops.max(2)), any::<bool>()).prop_map(move |(sender, mut ops, publish_tail)| {
                for r in 0..tail_rounds {
                    if publish_tail && r == 0 {
                        ops.push(Op::Publish);
                    }
                    ops.push(Op::Drain);
                    ops.push(Op::Advance(tail_step));
                }
                ops.push(Op::Drain);
                OpCase { sender, ops }
            })
        })
        .boxed()
}
